// Command bridge runs the real gengine lexer, parser and parse-tree listener
// on rule texts read from stdin (one JSON object per line) and writes, per
// text, the syntax errors, the listener errors and a reflection dump of the
// resulting rule entities. It is built from /repo on every verification run.
package main

import (
	"bufio"
	"encoding/json"
	"fmt"
	"math"
	"os"
	"reflect"
	"sort"
	"strconv"

	"github.com/antlr/antlr4/runtime/Go/antlr"
	"github.com/bilibili/gengine/internal/base"
	parser "github.com/bilibili/gengine/internal/iantlr/alr"
	"github.com/bilibili/gengine/internal/iparser"
)

type synErr struct {
	Line int    `json:"line"`
	Col  int    `json:"col"`
	Msg  string `json:"msg"`
}

type collect struct {
	*antlr.DefaultErrorListener
	errs []synErr
}

func (c *collect) SyntaxError(recognizer antlr.Recognizer, offendingSymbol interface{}, line, column int, msg string, e antlr.RecognitionException) {
	c.errs = append(c.errs, synErr{line, column, msg})
}

type node struct {
	K     string           `json:"k"`
	ID    int              `json:"id,omitempty"`
	Ref   int              `json:"ref,omitempty"`
	V     *node            `json:"v,omitempty"`
	F     map[string]*node `json:"f,omitempty"`
	L     []*node          `json:"l,omitempty"`
	MK    []*node          `json:"mk,omitempty"`
	MV    []*node          `json:"mv,omitempty"`
	S     string           `json:"s,omitempty"`
	RKind string           `json:"rk,omitempty"`
}

type dumper struct {
	ids  map[uintptr]int
	next int
}

var rvType = reflect.TypeOf(reflect.Value{})

func (d *dumper) dump(v reflect.Value) *node {
	if v.Type() == rvType {
		var inner reflect.Value
		if v.CanInterface() {
			inner = v.Interface().(reflect.Value)
		} else {
			return &node{K: "rvalue", RKind: "invalid"}
		}
		if !inner.IsValid() {
			return &node{K: "rvalue", RKind: "invalid"}
		}
		n := &node{K: "rvalue", RKind: inner.Kind().String()}
		switch inner.Kind() {
		case reflect.Int64:
			n.S = strconv.FormatInt(inner.Int(), 10)
		case reflect.Float64:
			n.S = strconv.FormatUint(math.Float64bits(inner.Float()), 10)
		case reflect.String:
			n.S = inner.String()
		case reflect.Bool:
			n.S = strconv.FormatBool(inner.Bool())
		default:
			n.RKind = "unsupported:" + inner.Kind().String()
		}
		return n
	}
	switch v.Kind() {
	case reflect.Ptr:
		if v.IsNil() {
			return &node{K: "nil"}
		}
		p := v.Pointer()
		if id, ok := d.ids[p]; ok {
			return &node{K: "ref", Ref: id}
		}
		d.next++
		id := d.next
		d.ids[p] = id
		return &node{K: "ptr", ID: id, V: d.dump(v.Elem())}
	case reflect.Struct:
		n := &node{K: "struct", F: map[string]*node{}}
		for i := 0; i < v.NumField(); i++ {
			n.F[v.Type().Field(i).Name] = d.dump(v.Field(i))
		}
		return n
	case reflect.Slice:
		if v.IsNil() {
			return &node{K: "nil"}
		}
		n := &node{K: "slice", L: []*node{}}
		for i := 0; i < v.Len(); i++ {
			n.L = append(n.L, d.dump(v.Index(i)))
		}
		return n
	case reflect.Map:
		if v.IsNil() {
			return &node{K: "nil"}
		}
		n := &node{K: "map", MK: []*node{}, MV: []*node{}}
		keys := v.MapKeys()
		sort.Slice(keys, func(i, j int) bool { return fmt.Sprint(keys[i]) < fmt.Sprint(keys[j]) })
		for _, k := range keys {
			n.MK = append(n.MK, d.dump(k))
			n.MV = append(n.MV, d.dump(v.MapIndex(k)))
		}
		return n
	case reflect.String:
		return &node{K: "string", S: v.String()}
	case reflect.Bool:
		return &node{K: "bool", S: strconv.FormatBool(v.Bool())}
	case reflect.Int, reflect.Int8, reflect.Int16, reflect.Int32, reflect.Int64:
		return &node{K: "int", S: strconv.FormatInt(v.Int(), 10)}
	case reflect.Uint, reflect.Uint8, reflect.Uint16, reflect.Uint32, reflect.Uint64:
		return &node{K: "uint", S: strconv.FormatUint(v.Uint(), 10)}
	case reflect.Float32, reflect.Float64:
		return &node{K: "float", S: strconv.FormatUint(math.Float64bits(v.Float()), 10)}
	}
	return &node{K: "unsupported:" + v.Kind().String()}
}

type result struct {
	Lex      []synErr `json:"lex"`
	Parse    []synErr `json:"parse"`
	Listener []string `json:"listener"`
	Rules    *node    `json:"rules,omitempty"`
	Panic    string   `json:"panic,omitempty"`
}

func parse(text string, fill bool) (res result) {
	defer func() {
		if e := recover(); e != nil {
			res = result{Panic: fmt.Sprint(e)}
		}
	}()
	kc := base.NewKnowledgeContext()
	in := antlr.NewInputStream(text)
	lexer := parser.NewgengineLexer(in)
	lexer.RemoveErrorListeners()
	lc := &collect{}
	lexer.AddErrorListener(lc)
	stream := antlr.NewCommonTokenStream(lexer, antlr.TokenDefaultChannel)
	if fill {
		// the entry point under analysis lexes the whole text before it parses
		stream.Fill()
	}
	listener := iparser.NewGengineParserListener(kc)
	psr := parser.NewgengineParser(stream)
	psr.BuildParseTrees = true
	psr.RemoveErrorListeners()
	pc := &collect{}
	psr.AddErrorListener(pc)
	antlr.ParseTreeWalkerDefault.Walk(listener, psr.Primary())
	res.Lex, res.Parse = lc.errs, pc.errs
	res.Listener = listener.ParseErrors
	d := &dumper{ids: map[uintptr]int{}}
	res.Rules = d.dump(reflect.ValueOf(kc.RuleEntities))
	return res
}

func main() {
	rd := bufio.NewReaderSize(os.Stdin, 1<<20)
	wr := bufio.NewWriter(os.Stdout)
	for {
		line, err := rd.ReadBytes('\n')
		if len(line) > 0 {
			var req struct {
				Text string `json:"text"`
				Fill bool   `json:"fill"`
			}
			if e := json.Unmarshal(line, &req); e != nil {
				fmt.Fprintln(wr, `{"panic":"bad request"}`)
			} else {
				out, _ := json.Marshal(parse(req.Text, req.Fill))
				wr.Write(out)
				wr.WriteByte('\n')
			}
			wr.Flush()
		}
		if err != nil {
			return
		}
	}
}
