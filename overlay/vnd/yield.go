package vnd

import (
	"runtime"
	"time"
)

func yield() {
	runtime.Gosched()
	time.Sleep(2 * time.Millisecond)
}
