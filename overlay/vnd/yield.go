package vnd

import (
	"runtime"
	"time"
)

func yield() {
	runtime.Gosched()
	time.Sleep(2 * time.Millisecond)
}

// Nap makes the calling goroutine sleep natively (no happens-before edge to
// anybody), so that another goroutine's work lands in the middle of the
// caller's; under the symbolic executor it does nothing.
func Nap() { time.Sleep(150 * time.Millisecond) }
