// Package vnd is the harness support library. Under the symbolic executor
// (symgo) every function below is intercepted by name and its body is never
// run; the bodies are the native semantics used when a counterexample is
// replayed against the real build (inputs come from $VND_INPUTS, a JSON object
// name -> literal).
package vnd

import (
	"encoding/json"
	"fmt"
	"math"
	"os"
	"strconv"
	"sync"
)

var (
	mu      sync.Mutex
	inputs  map[string]string
	seen    = map[string]int{}
	events  []string
	counts  = map[string]int{}
	loaded  bool
	Verbose = os.Getenv("VND_VERBOSE") != ""
)

func load() {
	if loaded {
		return
	}
	loaded = true
	inputs = map[string]string{}
	if p := os.Getenv("VND_INPUTS"); p != "" {
		b, err := os.ReadFile(p)
		if err != nil {
			fmt.Println("VND-ERROR: cannot read inputs:", err)
			os.Exit(5)
		}
		if err := json.Unmarshal(b, &inputs); err != nil {
			fmt.Println("VND-ERROR: bad inputs:", err)
			os.Exit(5)
		}
	}
}

func key(name string) string {
	mu.Lock()
	defer mu.Unlock()
	load()
	if n, ok := seen[name]; ok {
		seen[name] = n + 1
		return fmt.Sprintf("%s#%d", name, n+1)
	}
	seen[name] = 0
	return name
}

func bits(name string) uint64 {
	k := key(name)
	s, ok := inputs[k]
	if !ok {
		return 0
	}
	u, err := strconv.ParseUint(s, 0, 64)
	if err != nil {
		fmt.Printf("VND-ERROR: input %s=%q: %v\n", k, s, err)
		os.Exit(5)
	}
	return u
}

func Int64(name string) int64     { return int64(bits(name)) }
func Int32(name string) int32     { return int32(bits(name)) }
func Int16(name string) int16     { return int16(bits(name)) }
func Int8(name string) int8       { return int8(bits(name)) }
func Int(name string) int         { return int(bits(name)) }
func Uint64(name string) uint64   { return bits(name) }
func Uint32(name string) uint32   { return uint32(bits(name)) }
func Uint16(name string) uint16   { return uint16(bits(name)) }
func Uint8(name string) uint8     { return uint8(bits(name)) }
func Uint(name string) uint       { return uint(bits(name)) }
func Float64(name string) float64 { return math.Float64frombits(bits(name)) }
func Float32(name string) float32 { return math.Float32frombits(uint32(bits(name))) }

func Bool(name string) bool {
	k := key(name)
	return inputs[k] == "true"
}

// String returns a symbolic string of at most 4 printable ASCII bytes.
func String(name string) string {
	k := key(name)
	s, ok := inputs[k]
	if !ok {
		return ""
	}
	u, err := strconv.Unquote(s)
	if err != nil {
		return s
	}
	return u
}

// Choice is an unconstrained choice in [0,n).
func Choice(name string, n int) int {
	k := key("choice:" + name)
	s, ok := inputs[k]
	if !ok {
		return 0
	}
	v, _ := strconv.Atoi(s)
	return v
}

// Assume restricts the inputs considered; natively a false assumption means
// the model does not fit the real code (spurious).
func Assume(c bool) {
	if !c {
		fmt.Println("VND-ASSUME-FALSE")
		os.Exit(4)
	}
}

// Assert states the property.
func Assert(c bool, label string) {
	if !c {
		fmt.Println("VND-ASSERT-FAILED:", label)
		os.Exit(3)
	}
}

// Reach marks a point that must be reachable (vacuity witness).
func Reach(label string) {}

// holdFor makes the native replay keep event name back until event target has
// happened (or a timeout passes): this is how a schedule found by the solver
// is forced onto the real code.
func holdFor(name string) {
	mu.Lock()
	load()
	target, ok := inputs["hold:"+name]
	mu.Unlock()
	if !ok {
		return
	}
	iters := 200 // 0.4 s; VND_HOLD_ITER lengthens it for replays of time-outs measured in seconds
	if v, err := strconv.Atoi(os.Getenv("VND_HOLD_ITER")); err == nil && v > 0 {
		iters = v
	}
	for i := 0; i < iters; i++ {
		mu.Lock()
		n := counts[target]
		mu.Unlock()
		if n > 0 {
			return
		}
		yield()
	}
}

// Event appends a named event to the trace of the running goroutine.
func Event(name string) {
	holdFor(name)
	mu.Lock()
	events = append(events, name)
	counts[name]++
	mu.Unlock()
	if Verbose {
		fmt.Println("VND-EVENT:", name)
	}
}

func Count(name string) int {
	mu.Lock()
	defer mu.Unlock()
	return counts[name]
}

func Trace() []string {
	mu.Lock()
	defer mu.Unlock()
	return append([]string{}, events...)
}

// Quiesce lets every goroutine started so far run to completion or block.
func Quiesce() {
	for i := 0; i < 50; i++ {
		yield()
	}
}

// Blocked is the number of goroutines that are blocked for good (symbolic
// executor only; natively unknown).
func Blocked() int { return 0 }

// RequireOrder demands that every event a precedes every event b in every
// schedule (decided by the schedule query; natively checked on this run).
func RequireOrder(a, b string) {
	mu.Lock()
	defer mu.Unlock()
	la, fb := -1, -1
	for i, e := range events {
		if e == a {
			la = i
		}
		if e == b && fb < 0 {
			fb = i
		}
	}
	if la >= 0 && fb >= 0 && fb < la {
		fmt.Printf("VND-ASSERT-FAILED: order %s before %s\n", a, b)
		os.Exit(3)
	}
}

// RequireJoined demands that no goroutine activity follows event ret.
func RequireJoined(ret string) {
	Quiesce()
	mu.Lock()
	defer mu.Unlock()
	last := -1
	for i, e := range events {
		if e == ret {
			last = i
		}
	}
	if last >= 0 && last != len(events)-1 {
		fmt.Printf("VND-ASSERT-FAILED: joined (events after %s: %v)\n", ret, events[last+1:])
		os.Exit(3)
	}
}

// StopIfViolated ends the path when a schedule query already failed.
func StopIfViolated() {}

// NoRaces demands that no two conflicting accesses to tracked locations
// (names with the given prefix) can be adjacent in a consistent schedule.
func NoRaces(prefix string) {}

// SalText renders a salience for inclusion in rule text.
func SalText(s int64) string { return strconv.FormatInt(s, 10) }

// ExploreMapOrder switches exploration of map iteration orders on or off.
func ExploreMapOrder(on bool) {}

// ExpectEnd declares that the path is expected to end in the given way.
func ExpectEnd(kind string) {}

// Symbolic reports whether the harness runs under the symbolic executor.
func Symbolic() bool { return false }

// Boolean connectives that do not fork under the symbolic executor.
func And(a, b bool) bool     { return a && b }
func Or(a, b bool) bool      { return a || b }
func Not(a bool) bool        { return !a }
func Implies(a, b bool) bool { return !a || b }
func Iff(a, b bool) bool     { return a == b }

// OutcomeText returns a rule text whose compilation has exactly the requested
// kinds of front-end errors (lexer error, grammar error, listener error).
// Under the symbolic executor the text is a fixed good text and the parser
// bridge produces the requested outcome itself (the flags may be symbolic);
// natively the text is built so that the real front end produces it.
func OutcomeText(lexErr, gramErr, listenerErr bool) string {
	r1 := "rule \"b\" \"nb\" salience 7\nbegin\n ver(\"b\", 2)"
	if lexErr {
		r1 += " #"
	}
	r1 += "\nend\n"
	r2 := "rule \"x\" \"nx\" salience 3\nbegin\n ver(\"x\", 2)\nend\n"
	t := r1 + r2
	if listenerErr {
		t += r2
	}
	if gramErr {
		t += "rule \"y\" begin\n ver(\"y\", 2)\n"
	}
	return t
}

// WaitFor delays the calling goroutine (natively, bounded) until the named
// event has happened; under the symbolic executor it does nothing, the
// schedule being quantified there. It makes the native replay take one of the
// schedules in which the caller's work overlaps the other goroutine's.
func WaitFor(name string) {
	for i := 0; i < 1000; i++ {
		mu.Lock()
		n := counts[name]
		mu.Unlock()
		if n > 0 {
			return
		}
		yield()
	}
}
