package smt

import (
	"os/exec"
	"strings"
	"sync"
)

// Sampled is one decided query kept for the cross-solver check.
type Sampled struct {
	Script string // stand-alone script without (check-sat)
	Res    Result
}

// Sampler keeps a bounded, evenly thinned sample of the decided queries of all
// solver wrappers of one run.
type Sampler struct {
	mu     sync.Mutex
	Cap    int
	stride int
	seen   int
	items  []Sampled
}

// Global is consulted by every Solver.Check when non-nil.
var Global *Sampler

func NewSampler(cap int) *Sampler { return &Sampler{Cap: cap, stride: 1} }

func (sp *Sampler) offer(s *Solver, res Result) {
	sp.mu.Lock()
	sp.seen++
	take := sp.seen%sp.stride == 0
	sp.mu.Unlock()
	if !take {
		return
	}
	script := s.flatten()
	sp.mu.Lock()
	sp.items = append(sp.items, Sampled{script, res})
	if len(sp.items) > sp.Cap {
		kept := sp.items[:0]
		for k, it := range sp.items {
			if k%2 == 1 {
				kept = append(kept, it)
			}
		}
		sp.items = kept
		sp.stride *= 2
	}
	sp.mu.Unlock()
}

// CrossResult summarises re-deciding the sample with the other solvers.
type CrossResult struct {
	Seen      int            `json:"queries_seen"`
	Sampled   int            `json:"queries_sampled"`
	Agree     map[string]int `json:"agree"`
	NoVerdict map[string]int `json:"no_verdict"`
	Disagree  []string       `json:"disagreements,omitempty"`
	Scripts   []string       `json:"-"`
}

// Cross re-decides every sampled query with fresh one-shot runs of the other installed solvers.
func (sp *Sampler) Cross(workers int) *CrossResult {
	sp.mu.Lock()
	items := append([]Sampled(nil), sp.items...)
	seen := sp.seen
	sp.mu.Unlock()
	cr := &CrossResult{Seen: seen, Sampled: len(items), Agree: map[string]int{}, NoVerdict: map[string]int{}}
	others := [][]string{{"z3-new", "-T:10", "-in"}, {"cvc5", "--lang=smt2", "--strings-exp", "--tlimit=5000"}}
	var mu sync.Mutex
	var wg sync.WaitGroup
	jobs := make(chan Sampled)
	if workers < 1 {
		workers = 1
	}
	for w := 0; w < workers; w++ {
		wg.Add(1)
		go func() {
			defer wg.Done()
			for it := range jobs {
				for _, cmd := range others {
					c := exec.Command(cmd[0], cmd[1:]...)
					c.Stdin = strings.NewReader("(set-logic ALL)\n" + it.Script + "(check-sat)\n")
					out, _ := c.CombinedOutput()
					first := strings.TrimSpace(strings.SplitN(strings.TrimSpace(string(out)), "\n", 2)[0])
					mu.Lock()
					switch {
					case first == "sat" && it.Res == Sat, first == "unsat" && it.Res == Unsat:
						cr.Agree[cmd[0]]++
					case first == "sat" || first == "unsat":
						cr.Disagree = append(cr.Disagree, cmd[0]+" answers "+first+" where z3 answered "+it.Res.String())
						cr.Scripts = append(cr.Scripts, it.Script)
					default:
						cr.NoVerdict[cmd[0]]++
					}
					mu.Unlock()
				}
			}
		}()
	}
	for _, it := range items {
		jobs <- it
	}
	close(jobs)
	wg.Wait()
	return cr
}
