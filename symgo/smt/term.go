// Package smt builds SMT-LIB2 terms (with light constant folding) and talks to
// a long-lived solver process.
package smt

import (
	"fmt"
	"math"
	"strconv"
	"strings"
)

type Sort int

const (
	Bool Sort = iota
	BV8
	BV16
	BV32
	BV64
	FP32
	FP64
	Str
	Int
)

func (s Sort) String() string {
	switch s {
	case Bool:
		return "Bool"
	case BV8:
		return "(_ BitVec 8)"
	case BV16:
		return "(_ BitVec 16)"
	case BV32:
		return "(_ BitVec 32)"
	case BV64:
		return "(_ BitVec 64)"
	case FP32:
		return "(_ FloatingPoint 8 24)"
	case FP64:
		return "(_ FloatingPoint 11 53)"
	case Str:
		return "String"
	case Int:
		return "Int"
	}
	return "?"
}

func (s Sort) Width() int {
	switch s {
	case BV8:
		return 8
	case BV16:
		return 16
	case BV32:
		return 32
	case BV64:
		return 64
	}
	return 0
}

func BVSort(w int) Sort {
	switch w {
	case 8:
		return BV8
	case 16:
		return BV16
	case 32:
		return BV32
	case 64:
		return BV64
	}
	panic(fmt.Sprintf("smt: no bit-vector sort of width %d", w))
}

// Term is an SMT-LIB2 term. Constants keep their value for folding.
type Term struct {
	Sort    Sort
	S       string // SMT-LIB2 text
	IsConst bool
	U       uint64  // BV bits or Bool (0/1) or Int (as int64 bits)
	F       float64 // FP32/FP64 value
	Str     string  // Str value
	Taint   bool    // derived from an unconstrained stand-in (formatting stub)
}

func (t *Term) String() string { return t.S }

var (
	True  = &Term{Sort: Bool, S: "true", IsConst: true, U: 1}
	False = &Term{Sort: Bool, S: "false", IsConst: true, U: 0}
)

func BoolConst(b bool) *Term {
	if b {
		return True
	}
	return False
}

func mask(w int) uint64 {
	if w == 64 {
		return ^uint64(0)
	}
	return (uint64(1) << uint(w)) - 1
}

func BVConst(w int, v uint64) *Term {
	v &= mask(w)
	return &Term{Sort: BVSort(w), S: fmt.Sprintf("#x%0*x", w/4, v), IsConst: true, U: v}
}

func IntConst(v int64) *Term {
	s := strconv.FormatInt(v, 10)
	if v < 0 {
		s = "(- " + strconv.FormatInt(-v, 10) + ")"
	}
	return &Term{Sort: Int, S: s, IsConst: true, U: uint64(v)}
}

func FP64Const(f float64) *Term {
	b := math.Float64bits(f)
	s := fmt.Sprintf("(fp #b%01b #b%011b #b%052b)", b>>63, (b>>52)&0x7ff, b&((1<<52)-1))
	if f != f {
		s = "(_ NaN 11 53)"
	}
	return &Term{Sort: FP64, S: s, IsConst: true, F: f}
}

func FP32Const(f float32) *Term {
	b := math.Float32bits(f)
	s := fmt.Sprintf("(fp #b%01b #b%08b #b%023b)", b>>31, (b>>23)&0xff, b&((1<<23)-1))
	if f != f {
		s = "(_ NaN 8 24)"
	}
	return &Term{Sort: FP32, S: s, IsConst: true, F: float64(f)}
}

// StrConst renders a Go string (bytes) as an SMT string literal.
func StrConst(v string) *Term {
	var b strings.Builder
	b.WriteByte('"')
	for i := 0; i < len(v); i++ {
		c := v[i]
		switch {
		case c == '"':
			b.WriteString(`""`)
		case c == '\\':
			b.WriteString(`\u{5c}`)
		case c >= 0x20 && c <= 0x7e:
			b.WriteByte(c)
		default:
			fmt.Fprintf(&b, `\u{%x}`, c)
		}
	}
	b.WriteByte('"')
	return &Term{Sort: Str, S: b.String(), IsConst: true, Str: v}
}

// Var names a declared constant; declaration is the solver's business.
func Var(name string, s Sort) *Term {
	return &Term{Sort: s, S: quoteName(name)}
}

func quoteName(n string) string {
	for _, c := range n {
		if !(c >= 'a' && c <= 'z' || c >= 'A' && c <= 'Z' || c >= '0' && c <= '9' || c == '_' || c == '.' || c == '!') {
			return "|" + strings.ReplaceAll(n, "|", "_") + "|"
		}
	}
	if n == "" || (n[0] >= '0' && n[0] <= '9') {
		return "|" + n + "|"
	}
	return n
}

func app(s Sort, op string, args ...*Term) *Term {
	var b strings.Builder
	b.WriteByte('(')
	b.WriteString(op)
	taint := false
	for _, a := range args {
		b.WriteByte(' ')
		b.WriteString(a.S)
		taint = taint || a.Taint
	}
	b.WriteByte(')')
	return &Term{Sort: s, S: b.String(), Taint: taint}
}

// ---- booleans

func Not(a *Term) *Term {
	if a.IsConst {
		return BoolConst(a.U == 0)
	}
	if strings.HasPrefix(a.S, "(not ") {
		inner := a.S[5 : len(a.S)-1]
		return &Term{Sort: Bool, S: inner, Taint: a.Taint}
	}
	return app(Bool, "not", a)
}

func And(as ...*Term) *Term {
	var keep []*Term
	for _, a := range as {
		if a.IsConst {
			if a.U == 0 {
				return False
			}
			continue
		}
		keep = append(keep, a)
	}
	switch len(keep) {
	case 0:
		return True
	case 1:
		return keep[0]
	}
	return app(Bool, "and", keep...)
}

func Or(as ...*Term) *Term {
	var keep []*Term
	for _, a := range as {
		if a.IsConst {
			if a.U != 0 {
				return True
			}
			continue
		}
		keep = append(keep, a)
	}
	switch len(keep) {
	case 0:
		return False
	case 1:
		return keep[0]
	}
	return app(Bool, "or", keep...)
}

func Implies(a, b *Term) *Term { return Or(Not(a), b) }

func Ite(c, a, b *Term) *Term {
	if c.IsConst {
		if c.U != 0 {
			return a
		}
		return b
	}
	if a.S == b.S {
		return a
	}
	return app(a.Sort, "ite", c, a, b)
}

func Eq(a, b *Term) *Term {
	if a.Sort != b.Sort {
		panic(fmt.Sprintf("smt.Eq: sort mismatch %v vs %v (%s, %s)", a.Sort, b.Sort, a.S, b.S))
	}
	if a.IsConst && b.IsConst {
		switch a.Sort {
		case FP32, FP64:
			// structural equality on floats is bit equality (NaN = NaN)
			return BoolConst(math.Float64bits(a.F) == math.Float64bits(b.F) || (a.F != a.F && b.F != b.F))
		case Str:
			return BoolConst(a.Str == b.Str)
		default:
			return BoolConst(a.U == b.U)
		}
	}
	if a.S == b.S {
		return True
	}
	return app(Bool, "=", a, b)
}

func Distinct(as ...*Term) *Term {
	if len(as) < 2 {
		return True
	}
	return app(Bool, "distinct", as...)
}

// ---- bit-vectors

func sx(v uint64, w int) int64 {
	sh := uint(64 - w)
	return int64(v<<sh) >> sh
}

func BVBin(op string, a, b *Term) *Term {
	w := a.Sort.Width()
	if w == 0 || a.Sort != b.Sort {
		panic(fmt.Sprintf("smt.BVBin %s: bad sorts %v %v", op, a.Sort, b.Sort))
	}
	if a.IsConst && b.IsConst {
		x, y := a.U, b.U
		switch op {
		case "bvadd":
			return BVConst(w, x+y)
		case "bvsub":
			return BVConst(w, x-y)
		case "bvmul":
			return BVConst(w, x*y)
		case "bvand":
			return BVConst(w, x&y)
		case "bvor":
			return BVConst(w, x|y)
		case "bvxor":
			return BVConst(w, x^y)
		case "bvudiv":
			if y != 0 {
				return BVConst(w, x/y)
			}
		case "bvurem":
			if y != 0 {
				return BVConst(w, x%y)
			}
		case "bvsdiv":
			if y != 0 {
				sxv, syv := sx(x, w), sx(y, w)
				if syv == -1 {
					return BVConst(w, uint64(-sxv))
				}
				return BVConst(w, uint64(sxv/syv))
			}
		case "bvsrem":
			if y != 0 {
				sxv, syv := sx(x, w), sx(y, w)
				if syv == -1 {
					return BVConst(w, 0)
				}
				return BVConst(w, uint64(sxv%syv))
			}
		case "bvshl":
			if y >= uint64(w) {
				return BVConst(w, 0)
			}
			return BVConst(w, x<<y)
		case "bvlshr":
			if y >= uint64(w) {
				return BVConst(w, 0)
			}
			return BVConst(w, x>>y)
		case "bvashr":
			if y >= uint64(w) {
				y = uint64(w - 1)
			}
			return BVConst(w, uint64(sx(x, w)>>y))
		}
	}
	return app(a.Sort, op, a, b)
}

func BVCmp(op string, a, b *Term) *Term {
	w := a.Sort.Width()
	if w == 0 || a.Sort != b.Sort {
		panic(fmt.Sprintf("smt.BVCmp %s: bad sorts %v %v", op, a.Sort, b.Sort))
	}
	if a.IsConst && b.IsConst {
		x, y := a.U, b.U
		sxv, syv := sx(x, w), sx(y, w)
		switch op {
		case "bvult":
			return BoolConst(x < y)
		case "bvule":
			return BoolConst(x <= y)
		case "bvugt":
			return BoolConst(x > y)
		case "bvuge":
			return BoolConst(x >= y)
		case "bvslt":
			return BoolConst(sxv < syv)
		case "bvsle":
			return BoolConst(sxv <= syv)
		case "bvsgt":
			return BoolConst(sxv > syv)
		case "bvsge":
			return BoolConst(sxv >= syv)
		}
	}
	return app(Bool, op, a, b)
}

func BVNot(a *Term) *Term {
	if a.IsConst {
		return BVConst(a.Sort.Width(), ^a.U)
	}
	return app(a.Sort, "bvnot", a)
}

func BVNeg(a *Term) *Term {
	if a.IsConst {
		return BVConst(a.Sort.Width(), -a.U)
	}
	return app(a.Sort, "bvneg", a)
}

// BVResize converts a to width w, sign- or zero-extending when widening.
func BVResize(a *Term, w int, signed bool) *Term {
	aw := a.Sort.Width()
	if aw == w {
		return a
	}
	if a.IsConst {
		if w < aw {
			return BVConst(w, a.U)
		}
		if signed {
			return BVConst(w, uint64(sx(a.U, aw)))
		}
		return BVConst(w, a.U)
	}
	if w < aw {
		return &Term{Sort: BVSort(w), S: fmt.Sprintf("((_ extract %d 0) %s)", w-1, a.S), Taint: a.Taint}
	}
	op := "zero_extend"
	if signed {
		op = "sign_extend"
	}
	return &Term{Sort: BVSort(w), S: fmt.Sprintf("((_ %s %d) %s)", op, w-aw, a.S), Taint: a.Taint}
}

// ---- floating point (RNE)

func fpParams(s Sort) string {
	if s == FP32 {
		return "8 24"
	}
	return "11 53"
}

func FPBin(op string, a, b *Term) *Term {
	if a.Sort != b.Sort {
		panic("smt.FPBin sort mismatch")
	}
	if a.IsConst && b.IsConst {
		x, y := a.F, b.F
		var r float64
		ok := true
		if a.Sort == FP32 {
			x32, y32 := float32(x), float32(y)
			var r32 float32
			switch op {
			case "fp.add":
				r32 = x32 + y32
			case "fp.sub":
				r32 = x32 - y32
			case "fp.mul":
				r32 = x32 * y32
			case "fp.div":
				r32 = x32 / y32
			default:
				ok = false
			}
			if ok {
				return FP32Const(r32)
			}
		} else {
			switch op {
			case "fp.add":
				r = x + y
			case "fp.sub":
				r = x - y
			case "fp.mul":
				r = x * y
			case "fp.div":
				r = x / y
			default:
				ok = false
			}
			if ok {
				return FP64Const(r)
			}
		}
	}
	return app(a.Sort, op+" RNE", a, b)
}

func FPCmp(op string, a, b *Term) *Term {
	if a.Sort != b.Sort {
		panic("smt.FPCmp sort mismatch")
	}
	if a.IsConst && b.IsConst {
		x, y := a.F, b.F
		switch op {
		case "fp.eq":
			return BoolConst(x == y)
		case "fp.lt":
			return BoolConst(x < y)
		case "fp.leq":
			return BoolConst(x <= y)
		case "fp.gt":
			return BoolConst(x > y)
		case "fp.geq":
			return BoolConst(x >= y)
		}
	}
	return app(Bool, op, a, b)
}

func FPNeg(a *Term) *Term {
	if a.IsConst {
		if a.Sort == FP32 {
			return FP32Const(-float32(a.F))
		}
		return FP64Const(-a.F)
	}
	return app(a.Sort, "fp.neg", a)
}

// FPFromBits reinterprets a BV32/BV64 as an IEEE float.
func FPFromBits(a *Term) *Term {
	switch a.Sort {
	case BV64:
		if a.IsConst {
			return FP64Const(math.Float64frombits(a.U))
		}
		return &Term{Sort: FP64, S: "((_ to_fp 11 53) " + a.S + ")", Taint: a.Taint}
	case BV32:
		if a.IsConst {
			return FP32Const(math.Float32frombits(uint32(a.U)))
		}
		return &Term{Sort: FP32, S: "((_ to_fp 8 24) " + a.S + ")", Taint: a.Taint}
	}
	panic("smt.FPFromBits: need BV32/BV64")
}

// FPFromBV converts an integer to float (RNE).
func FPFromBV(a *Term, signed bool, to Sort) *Term {
	if a.IsConst {
		var f float64
		if signed {
			f = float64(sx(a.U, a.Sort.Width()))
		} else {
			f = float64(a.U)
		}
		if to == FP32 {
			if signed {
				return FP32Const(float32(sx(a.U, a.Sort.Width())))
			}
			return FP32Const(float32(a.U))
		}
		return FP64Const(f)
	}
	op := "to_fp"
	if !signed {
		op = "to_fp_unsigned"
	}
	return &Term{Sort: to, S: fmt.Sprintf("((_ %s %s) RNE %s)", op, fpParams(to), a.S), Taint: a.Taint}
}

// FPToFP converts between float widths.
func FPToFP(a *Term, to Sort) *Term {
	if a.Sort == to {
		return a
	}
	if a.IsConst {
		if to == FP32 {
			return FP32Const(float32(a.F))
		}
		return FP64Const(a.F)
	}
	return &Term{Sort: to, S: fmt.Sprintf("((_ to_fp %s) RNE %s)", fpParams(to), a.S), Taint: a.Taint}
}

// FPToBV truncates toward zero (unspecified when out of range, like Go).
func FPToBV(a *Term, w int, signed bool) *Term {
	if a.IsConst {
		f := a.F
		if f == f && math.Abs(f) < 9e18 {
			if signed {
				return BVConst(w, uint64(int64(f)))
			}
			if f >= 0 {
				return BVConst(w, uint64(f))
			}
		}
	}
	op := "fp.to_sbv"
	if !signed {
		op = "fp.to_ubv"
	}
	return &Term{Sort: BVSort(w), S: fmt.Sprintf("((_ %s %d) RTZ %s)", op, w, a.S), Taint: a.Taint}
}

func FPIsNaN(a *Term) *Term {
	if a.IsConst {
		return BoolConst(a.F != a.F)
	}
	return app(Bool, "fp.isNaN", a)
}

// ---- strings

func StrConcat(a, b *Term) *Term {
	if a.IsConst && b.IsConst {
		return StrConst(a.Str + b.Str)
	}
	if a.IsConst && a.Str == "" {
		return b
	}
	if b.IsConst && b.Str == "" {
		return a
	}
	return app(Str, "str.++", a, b)
}

func StrLt(a, b *Term) *Term {
	if a.IsConst && b.IsConst {
		return BoolConst(a.Str < b.Str)
	}
	return app(Bool, "str.<", a, b)
}

func StrLe(a, b *Term) *Term {
	if a.IsConst && b.IsConst {
		return BoolConst(a.Str <= b.Str)
	}
	return app(Bool, "str.<=", a, b)
}

func StrLen(a *Term) *Term {
	if a.IsConst {
		return IntConst(int64(len(a.Str)))
	}
	return app(Int, "str.len", a)
}

// ---- integers (schedules)

func IntBin(op string, a, b *Term) *Term {
	if a.IsConst && b.IsConst {
		x, y := int64(a.U), int64(b.U)
		switch op {
		case "+":
			return IntConst(x + y)
		case "-":
			return IntConst(x - y)
		}
	}
	return app(Int, op, a, b)
}

func IntSum(as ...*Term) *Term {
	if len(as) == 0 {
		return IntConst(0)
	}
	if len(as) == 1 {
		return as[0]
	}
	return app(Int, "+", as...)
}

func IntCmp(op string, a, b *Term) *Term {
	if a.IsConst && b.IsConst {
		x, y := int64(a.U), int64(b.U)
		switch op {
		case "<":
			return BoolConst(x < y)
		case "<=":
			return BoolConst(x <= y)
		case ">":
			return BoolConst(x > y)
		case ">=":
			return BoolConst(x >= y)
		}
	}
	return app(Bool, op, a, b)
}

// Int2BV converts a non-negative Int term into a bit-vector.
func Int2BV(a *Term, w int) *Term {
	if a.IsConst {
		return BVConst(w, a.U)
	}
	return &Term{Sort: BVSort(w), S: fmt.Sprintf("((_ int2bv %d) %s)", w, a.S), Taint: a.Taint}
}
