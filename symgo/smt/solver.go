package smt

import (
	"bufio"
	"fmt"
	"io"
	"os/exec"
	"strconv"
	"strings"
	"time"
)

type Result int

const (
	Unsat Result = iota
	Sat
	Unknown
)

func (r Result) String() string {
	return [...]string{"unsat", "sat", "unknown"}[r]
}

// Stats are cumulative per solver process wrapper.
type Stats struct {
	Fallbacks int // unknown in the incremental session, decided by a fresh one-shot solver run
	Queries   int
	Sat       int
	Unsat     int
	Unknown   int
	Errors    int
	Restarts  int
	Seconds   float64
	MaxQuery  float64
}

type Solver struct {
	Bin       string
	Args      []string
	TimeoutMs int
	cmd       *exec.Cmd
	in        io.WriteCloser
	out       *bufio.Reader
	lines     chan string
	seq       int
	Stats     Stats
	Log       io.Writer // optional transcript
	depth     int
	LastError string
	decls     []string
	frames    [][]string // live assertions per push level
	lastFlat  string     // flattened script of the last fallback-decided sat query
}

// NewZ3 starts `z3 -in`.
func NewZ3(bin string, timeoutMs int) (*Solver, error) {
	s := &Solver{Bin: bin, Args: []string{"-in"}, TimeoutMs: timeoutMs}
	if err := s.start(); err != nil {
		return nil, err
	}
	return s, nil
}

// NewCVC5 starts `cvc5 --incremental`.
func NewCVC5(bin string, timeoutMs int) (*Solver, error) {
	s := &Solver{Bin: bin, Args: []string{"--incremental", "--lang=smt2", "--strings-exp", "--produce-models", fmt.Sprintf("--tlimit-per=%d", timeoutMs)}, TimeoutMs: timeoutMs}
	if err := s.start(); err != nil {
		return nil, err
	}
	return s, nil
}

func (s *Solver) isZ3() bool { return strings.Contains(s.Bin, "z3") }

func (s *Solver) start() error {
	s.cmd = exec.Command(s.Bin, s.Args...)
	in, err := s.cmd.StdinPipe()
	if err != nil {
		return err
	}
	out, err := s.cmd.StdoutPipe()
	if err != nil {
		return err
	}
	s.cmd.Stderr = s.cmd.Stdout
	if err := s.cmd.Start(); err != nil {
		return err
	}
	s.in = in
	s.out = bufio.NewReaderSize(out, 1<<16)
	lines := make(chan string, 1024)
	s.lines = lines
	go func(r *bufio.Reader) {
		for {
			l, err := r.ReadString('\n')
			if l != "" {
				lines <- strings.TrimRight(l, "\r\n")
			}
			if err != nil {
				close(lines)
				return
			}
		}
	}(s.out)
	s.depth = 0
	s.preamble()
	return nil
}

func (s *Solver) preamble() {
	if s.isZ3() {
		s.send(fmt.Sprintf("(set-option :timeout %d)", s.TimeoutMs))
		s.send("(set-option :produce-models true)")
	} else {
		s.send("(set-logic ALL)")
	}
}

func (s *Solver) send(cmd string) {
	if s.Log != nil {
		fmt.Fprintln(s.Log, cmd)
	}
	io.WriteString(s.in, cmd)
	io.WriteString(s.in, "\n")
}

// sync sends an echo marker and collects every output line before it.
func (s *Solver) sync() ([]string, bool) {
	s.seq++
	marker := fmt.Sprintf("<<done-%d>>", s.seq)
	s.send(fmt.Sprintf("(echo \"%s\")", marker))
	var got []string
	deadline := time.After(time.Duration(s.TimeoutMs)*time.Millisecond + 15*time.Second)
	for {
		select {
		case l, ok := <-s.lines:
			if !ok {
				return got, false
			}
			if strings.Contains(l, marker) {
				return got, true
			}
			if s.Log != nil {
				fmt.Fprintln(s.Log, ";; "+l)
			}
			got = append(got, l)
		case <-deadline:
			return got, false
		}
	}
}

func (s *Solver) restart() {
	s.Stats.Restarts++
	if s.cmd != nil && s.cmd.Process != nil {
		s.cmd.Process.Kill()
		s.cmd.Wait()
	}
	s.start()
}

func (s *Solver) Close() {
	if s.cmd != nil && s.cmd.Process != nil {
		s.in.Close()
		s.cmd.Process.Kill()
		s.cmd.Wait()
	}
}

// Reset forgets all declarations and assertions.
func (s *Solver) Reset() {
	s.send("(reset)")
	s.depth = 0
	s.decls = nil
	s.frames = [][]string{nil}
	s.lastFlat = ""
	s.preamble()
}

func (s *Solver) Declare(name string, sort Sort) {
	d := fmt.Sprintf("(declare-const %s %s)", quoteName(name), sort)
	s.decls = append(s.decls, d)
	s.send(d)
}

func (s *Solver) Assert(t *Term) {
	if t.IsConst && t.U != 0 {
		return
	}
	a := "(assert " + t.S + ")"
	if len(s.frames) == 0 {
		s.frames = [][]string{nil}
	}
	s.frames[len(s.frames)-1] = append(s.frames[len(s.frames)-1], a)
	s.send(a)
}

func (s *Solver) Push() { s.send("(push 1)"); s.depth++; s.frames = append(s.frames, nil) }
func (s *Solver) Pop() {
	s.send("(pop 1)")
	s.depth--
	if len(s.frames) > 1 {
		s.frames = s.frames[:len(s.frames)-1]
	}
}

// flatten renders declarations and live assertions as a stand-alone script.
func (s *Solver) flatten() string {
	var b strings.Builder
	seen := map[string]bool{}
	for _, d := range s.decls {
		if seen[d] {
			continue // declared again in a later scope after a pop
		}
		seen[d] = true
		b.WriteString(d)
		b.WriteByte('\n')
	}
	for _, fr := range s.frames {
		for _, a := range fr {
			b.WriteString(a)
			b.WriteByte('\n')
		}
	}
	return b.String()
}

// fallback decides the current query with fresh non-incremental solver runs
// (full preprocessing often settles what the incremental core cannot).
func (s *Solver) fallback(extra string) (Result, string) {
	script := s.flatten()
	for _, cmd := range [][]string{{"z3", "-T:60", "-in"}, {"z3-new", "-T:60", "-in"}, {"cvc5", "--lang=smt2", "--strings-exp", "--produce-models", "--tlimit=60000"}} {
		full := script + "(check-sat)\n" + extra
		if cmd[0] != "z3" {
			full = "(set-logic ALL)\n" + full
		}
		if cmd[0] == "z3" || cmd[0] == "z3-new" {
			full = "(set-option :produce-models true)\n" + full
		}
		c := exec.Command(cmd[0], cmd[1:]...)
		c.Stdin = strings.NewReader(full)
		out, _ := c.CombinedOutput()
		txt := string(out)
		if strings.Contains(txt, "(error") && !strings.HasPrefix(strings.TrimSpace(txt), "sat") && !strings.HasPrefix(strings.TrimSpace(txt), "unsat") {
			continue
		}
		first := strings.TrimSpace(strings.SplitN(strings.TrimSpace(txt), "\n", 2)[0])
		switch first {
		case "unsat":
			return Unsat, ""
		case "sat":
			rest := ""
			if k := strings.Index(txt, "\n"); k >= 0 {
				rest = txt[k+1:]
			}
			return Sat, rest
		}
	}
	return Unknown, ""
}

// Check runs (check-sat). Any "(error" line makes the answer Unknown.
func (s *Solver) Check() Result {
	t0 := time.Now()
	s.send("(check-sat)")
	lines, ok := s.sync()
	dt := time.Since(t0).Seconds()
	s.Stats.Queries++
	s.Stats.Seconds += dt
	if dt > s.Stats.MaxQuery {
		s.Stats.MaxQuery = dt
	}
	if !ok {
		s.Stats.Unknown++
		s.LastError = "solver did not answer; restarted"
		s.restart()
		return Unknown
	}
	res := Unknown
	seen := false
	for _, l := range lines {
		if strings.Contains(l, "(error") {
			s.Stats.Errors++
			s.Stats.Unknown++
			s.LastError = l
			return Unknown
		}
		switch strings.TrimSpace(l) {
		case "sat":
			res, seen = Sat, true
		case "unsat":
			res, seen = Unsat, true
		case "unknown", "timeout":
			res, seen = Unknown, true
		}
	}
	if !seen {
		s.Stats.Unknown++
		s.LastError = "no verdict: " + strings.Join(lines, " | ")
		return Unknown
	}
	s.lastFlat = ""
	if res == Unknown {
		if r, _ := s.fallback(""); r != Unknown {
			s.Stats.Fallbacks++
			res = r
			if r == Sat {
				s.lastFlat = "sat"
			}
		}
	}
	switch res {
	case Sat:
		s.Stats.Sat++
	case Unsat:
		s.Stats.Unsat++
	default:
		s.Stats.Unknown++
	}
	if Global != nil && res != Unknown {
		Global.offer(s, res)
	}
	return res
}

// CheckWith decides satisfiability of the current assertions plus extra.
func (s *Solver) CheckWith(extra ...*Term) Result {
	for _, e := range extra {
		if e.IsConst && e.U == 0 {
			return Unsat
		}
	}
	s.Push()
	for _, e := range extra {
		s.Assert(e)
	}
	r := s.Check()
	if s.depth > 0 {
		s.Pop()
	}
	return r
}

// ModelVal is a value read back from the solver.
type ModelVal struct {
	Sort Sort
	U    uint64
	Str  string
	I    int64
}

// Model must follow a Sat answer (before any pop); it evaluates vars.
func (s *Solver) Model(vars []*Term) (map[string]ModelVal, error) {
	res := map[string]ModelVal{}
	if len(vars) == 0 {
		return res, nil
	}
	var b strings.Builder
	b.WriteString("(get-value (")
	for _, v := range vars {
		b.WriteString(v.S)
		b.WriteByte(' ')
	}
	b.WriteString("))")
	if s.lastFlat != "" {
		r, out := s.fallback(b.String() + "\n")
		if r != Sat {
			return nil, fmt.Errorf("fallback solver lost the model")
		}
		return parseModel(out, vars)
	}
	s.send(b.String())
	lines, ok := s.sync()
	if !ok {
		s.restart()
		return nil, fmt.Errorf("solver did not answer get-value")
	}
	txt := strings.Join(lines, "\n")
	return parseModel(txt, vars)
}

func parseModel(txt string, vars []*Term) (map[string]ModelVal, error) {
	res := map[string]ModelVal{}
	if strings.Contains(txt, "(error") {
		return nil, fmt.Errorf("get-value: %s", txt)
	}
	sx, _, err := parseSexp(txt, 0)
	if err != nil {
		return nil, err
	}
	lst, ok2 := sx.([]interface{})
	if !ok2 {
		return nil, fmt.Errorf("get-value: unexpected %q", txt)
	}
	for i, e := range lst {
		pair, ok := e.([]interface{})
		if !ok || len(pair) != 2 || i >= len(vars) {
			return nil, fmt.Errorf("get-value: unexpected pair in %q", txt)
		}
		mv, err := decodeVal(vars[i].Sort, pair[1])
		if err != nil {
			return nil, fmt.Errorf("get-value %s: %v", vars[i].S, err)
		}
		res[vars[i].S] = mv
	}
	return res, nil
}

func decodeVal(sort Sort, x interface{}) (ModelVal, error) {
	mv := ModelVal{Sort: sort}
	switch sort {
	case Bool:
		a, _ := x.(string)
		mv.U = 0
		if a == "true" {
			mv.U = 1
		} else if a != "false" {
			return mv, fmt.Errorf("bad bool %v", x)
		}
	case BV8, BV16, BV32, BV64:
		a, _ := x.(string)
		switch {
		case strings.HasPrefix(a, "#x"):
			u, err := strconv.ParseUint(a[2:], 16, 64)
			if err != nil {
				return mv, err
			}
			mv.U = u
		case strings.HasPrefix(a, "#b"):
			u, err := strconv.ParseUint(a[2:], 2, 64)
			if err != nil {
				return mv, err
			}
			mv.U = u
		default:
			// (_ bv123 64)
			if l, ok := x.([]interface{}); ok && len(l) == 3 {
				if n, ok := l[1].(string); ok && strings.HasPrefix(n, "bv") {
					u, err := strconv.ParseUint(n[2:], 10, 64)
					if err != nil {
						return mv, err
					}
					mv.U = u
					return mv, nil
				}
			}
			return mv, fmt.Errorf("bad bv %v", x)
		}
	case Int:
		switch a := x.(type) {
		case string:
			i, err := strconv.ParseInt(a, 10, 64)
			if err != nil {
				return mv, err
			}
			mv.I = i
		case []interface{}:
			if len(a) == 2 && a[0] == "-" {
				i, err := strconv.ParseInt(a[1].(string), 10, 64)
				if err != nil {
					return mv, err
				}
				mv.I = -i
			} else {
				return mv, fmt.Errorf("bad int %v", x)
			}
		}
	case Str:
		a, ok := x.(string)
		if !ok || len(a) < 2 || a[0] != '"' {
			return mv, fmt.Errorf("bad string %v", x)
		}
		mv.Str = unescapeSMT(a[1 : len(a)-1])
	default:
		return mv, fmt.Errorf("model values of sort %v are read through their bit-vector variable", sort)
	}
	return mv, nil
}

func unescapeSMT(s string) string {
	var b []byte
	for i := 0; i < len(s); i++ {
		c := s[i]
		if c == '"' && i+1 < len(s) && s[i+1] == '"' {
			b = append(b, '"')
			i++
			continue
		}
		if c == '\\' && i+2 < len(s) && s[i+1] == 'u' {
			if s[i+2] == '{' {
				j := strings.IndexByte(s[i:], '}')
				if j > 0 {
					if u, err := strconv.ParseUint(s[i+3:i+j], 16, 32); err == nil {
						b = append(b, byte(u))
						i += j
						continue
					}
				}
			} else if i+5 < len(s) {
				if u, err := strconv.ParseUint(s[i+2:i+6], 16, 32); err == nil {
					b = append(b, byte(u))
					i += 5
					continue
				}
			}
		}
		b = append(b, c)
	}
	return string(b)
}

// parseSexp parses one s-expression; atoms are strings, lists []interface{}.
func parseSexp(s string, i int) (interface{}, int, error) {
	for i < len(s) && (s[i] == ' ' || s[i] == '\n' || s[i] == '\t' || s[i] == '\r') {
		i++
	}
	if i >= len(s) {
		return nil, i, fmt.Errorf("sexp: unexpected end")
	}
	switch s[i] {
	case '(':
		i++
		var lst []interface{}
		for {
			for i < len(s) && (s[i] == ' ' || s[i] == '\n' || s[i] == '\t' || s[i] == '\r') {
				i++
			}
			if i >= len(s) {
				return nil, i, fmt.Errorf("sexp: unterminated list")
			}
			if s[i] == ')' {
				return lst, i + 1, nil
			}
			e, j, err := parseSexp(s, i)
			if err != nil {
				return nil, j, err
			}
			lst = append(lst, e)
			i = j
		}
	case '"':
		j := i + 1
		for j < len(s) {
			if s[j] == '"' {
				if j+1 < len(s) && s[j+1] == '"' {
					j += 2
					continue
				}
				break
			}
			j++
		}
		return s[i : j+1], j + 1, nil
	case '|':
		j := strings.IndexByte(s[i+1:], '|')
		return s[i : i+j+2], i + j + 2, nil
	default:
		j := i
		for j < len(s) && !strings.ContainsRune(" \n\t\r()", rune(s[j])) {
			j++
		}
		return s[i:j], j, nil
	}
}
