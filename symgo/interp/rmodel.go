package interp

// A model of package reflect over interpreter values. Only the API surface
// gengine uses is modelled; anything else ends the path as unsupported.

import (
	"fmt"
	"go/token"
	"go/types"
	"reflect"
	"strings"

	"golang.org/x/tools/go/ssa"

	"symgo/smt"
)

// rvalue models reflect.Value.
type rvalue struct {
	t    types.Type // nil: the zero Value
	v    value      // payload when addr == nil
	addr *value     // addressable cell holding the payload
	ro   bool       // reached through an unexported field
}

func (r rvalue) valid() bool { return r.t != nil }

func (r rvalue) get() value {
	if r.addr != nil {
		return load(r.t, r.addr)
	}
	return r.v
}

func (r rvalue) eq(o rvalue) bool {
	if !r.valid() || !o.valid() {
		return r.valid() == o.valid()
	}
	panic(unsupported{"comparison of two valid reflect.Values"})
}

// boundMethod is a method value produced by MethodByName.
type boundMethod struct {
	fn   *ssa.Function
	recv value
}

// rtypeMethod is a pending call of a reflect.Type method.
type rtypeMethod struct {
	name string
	recv rtype
}

func isReflectValueType(t types.Type) bool {
	n, ok := t.(*types.Named)
	if !ok {
		return false
	}
	o := n.Obj()
	return o.Name() == "Value" && o.Pkg() != nil && o.Pkg().Path() == "reflect"
}

func reflectPanic(format string, args ...interface{}) targetPanic {
	return targetPanic{v: iface{t: types.Typ[types.String], v: fmt.Sprintf(format, args...)}}
}

func valueError(method string, k reflect.Kind) targetPanic {
	if k == reflect.Invalid {
		return reflectPanic("reflect: call of %s on zero Value", method)
	}
	return reflectPanic("reflect: call of %s on %s Value", method, k)
}

func reflectKind(t types.Type) reflect.Kind {
	if t == nil {
		return reflect.Invalid
	}
	switch t := t.(type) {
	case *types.Named:
		return reflectKind(t.Underlying())
	case *types.Alias:
		return reflectKind(types.Unalias(t))
	case *types.Basic:
		switch t.Kind() {
		case types.Bool:
			return reflect.Bool
		case types.Int:
			return reflect.Int
		case types.Int8:
			return reflect.Int8
		case types.Int16:
			return reflect.Int16
		case types.Int32:
			return reflect.Int32
		case types.Int64:
			return reflect.Int64
		case types.Uint:
			return reflect.Uint
		case types.Uint8:
			return reflect.Uint8
		case types.Uint16:
			return reflect.Uint16
		case types.Uint32:
			return reflect.Uint32
		case types.Uint64:
			return reflect.Uint64
		case types.Uintptr:
			return reflect.Uintptr
		case types.Float32:
			return reflect.Float32
		case types.Float64:
			return reflect.Float64
		case types.Complex64:
			return reflect.Complex64
		case types.Complex128:
			return reflect.Complex128
		case types.String:
			return reflect.String
		case types.UnsafePointer:
			return reflect.UnsafePointer
		}
	case *types.Array:
		return reflect.Array
	case *types.Chan:
		return reflect.Chan
	case *types.Signature:
		return reflect.Func
	case *types.Interface:
		return reflect.Interface
	case *types.Map:
		return reflect.Map
	case *types.Pointer:
		return reflect.Ptr
	case *types.Slice:
		return reflect.Slice
	case *types.Struct:
		return reflect.Struct
	}
	panic(unsupported{fmt.Sprint("reflect kind of ", t)})
}

// typeString prints a type the way reflect.Type.String does.
func typeString(t types.Type) string {
	switch t := t.(type) {
	case *types.Basic:
		switch t.Kind() {
		case types.Uint8:
			return "uint8"
		case types.Int32:
			return "int32"
		case types.UnsafePointer:
			return "unsafe.Pointer"
		}
		return t.Name()
	case *types.Alias:
		return typeString(types.Unalias(t))
	case *types.Named:
		o := t.Obj()
		if o.Pkg() == nil {
			return o.Name()
		}
		return o.Pkg().Name() + "." + o.Name()
	case *types.Pointer:
		return "*" + typeString(t.Elem())
	case *types.Slice:
		return "[]" + typeString(t.Elem())
	case *types.Array:
		return fmt.Sprintf("[%d]%s", t.Len(), typeString(t.Elem()))
	case *types.Map:
		return "map[" + typeString(t.Key()) + "]" + typeString(t.Elem())
	case *types.Chan:
		return "chan " + typeString(t.Elem())
	case *types.Signature:
		var b strings.Builder
		b.WriteString("func(")
		for k := 0; k < t.Params().Len(); k++ {
			if k > 0 {
				b.WriteString(", ")
			}
			pt := t.Params().At(k).Type()
			if t.Variadic() && k == t.Params().Len()-1 {
				b.WriteString("..." + typeString(pt.(*types.Slice).Elem()))
			} else {
				b.WriteString(typeString(pt))
			}
		}
		b.WriteString(")")
		switch t.Results().Len() {
		case 0:
		case 1:
			b.WriteString(" " + typeString(t.Results().At(0).Type()))
		default:
			b.WriteString(" (")
			for k := 0; k < t.Results().Len(); k++ {
				if k > 0 {
					b.WriteString(", ")
				}
				b.WriteString(typeString(t.Results().At(k).Type()))
			}
			b.WriteString(")")
		}
		return b.String()
	case *types.Interface:
		if t.NumMethods() == 0 {
			return "interface {}"
		}
	case *types.Struct:
		if t.NumFields() == 0 {
			return "struct {}"
		}
	}
	return types.TypeString(t, func(p *types.Package) string { return p.Name() })
}

func isIface(t types.Type) bool {
	_, ok := t.Underlying().(*types.Interface)
	return ok
}

// boxFor converts rvalue x into a payload storable in a location of type t
// (wrapping into an interface when t is an interface type).
func boxFor(t types.Type, x rvalue) value {
	if isIface(t) && !isIface(x.t) {
		return iface{t: x.t, v: x.get()}
	}
	return x.get()
}

func (i *interpreter) reflectTypeIface(t types.Type) value {
	if t == nil {
		return iface{}
	}
	return iface{t: rtypeMarker, v: rtype{t}}
}

var rtypeMarker = types.NewPointer(types.NewNamed(types.NewTypeName(token.NoPos, nil, "rtype", nil), types.NewStruct(nil, nil), nil))

func mkValueOf(x value) rvalue {
	itf := x.(iface)
	if itf.t == nil {
		return rvalue{}
	}
	return rvalue{t: itf.t, v: itf.v}
}

func kindOfR(r rvalue) reflect.Kind { return reflectKind(r.t) }

func mustBe(r rvalue, method string, kinds ...reflect.Kind) reflect.Kind {
	k := kindOfR(r)
	for _, want := range kinds {
		if k == want {
			return k
		}
	}
	panic(valueError(method, k))
}

func (r rvalue) mustBeAssignable(method string) {
	if !r.valid() {
		panic(valueError(method, reflect.Invalid))
	}
	if r.ro {
		panic(reflectPanic("reflect: %s using value obtained using unexported field", method))
	}
	if r.addr == nil {
		panic(reflectPanic("reflect: %s using unaddressable value", method))
	}
}

func (r rvalue) mustBeExported(method string) {
	if !r.valid() {
		panic(valueError(method, reflect.Invalid))
	}
	if r.ro {
		panic(reflectPanic("reflect: %s using value obtained using unexported field", method))
	}
}

// fieldByPath follows an index path of struct fields (embedded pointers are
// dereferenced, nil ones panic like reflect does).
func fieldByIndex(r rvalue, st *types.Struct, idx int) rvalue {
	f := st.Field(idx)
	out := rvalue{t: f.Type(), ro: r.ro || !f.Exported()}
	if r.addr != nil {
		out.addr = &(*r.addr).(structure)[idx]
	} else {
		out.v = r.v.(structure)[idx]
	}
	return out
}

// hostStructAccess logs a whole-struct read or write made through reflect on a struct that belongs to the
// host program (a type of a harness package): copying such a struct while another goroutine assigns one of
// its fields, or writing it back as a whole, races with that assignment.
func (i *interpreter) hostStructAccess(fr *frame, r rvalue, write bool) {
	if !i.cfg.TrackHostStructs || r.addr == nil {
		return
	}
	n, ok := r.t.(*types.Named)
	if !ok || n.Obj().Pkg() == nil || !strings.Contains(n.Obj().Pkg().Path(), "zz_verif") {
		return
	}
	st, ok := n.Underlying().(*types.Struct)
	if !ok {
		return
	}
	l, ok := i.cellLoc[r.addr]
	if !ok || l.name == "obj" {
		l = i.locByName(fmt.Sprintf("host:%s#%d", n.Obj().Name(), len(i.cellLoc)), false)
		i.cellLoc[r.addr] = l
	}
	kind := "read"
	if write {
		kind = "write"
	}
	i.logEvent(fr.th, kind, l.id, 0, l.name, fr)
	if write {
		// a whole-struct write also writes every field
		for k := 0; k < st.NumFields(); k++ {
			cell := &(*r.addr).(structure)[k]
			fl, ok := i.cellLoc[cell]
			if !ok || fl.name == "obj" {
				fl = i.locByName(fmt.Sprintf("host:%s.%s#%d", n.Obj().Name(), st.Field(k).Name(), len(i.cellLoc)), false)
				i.cellLoc[cell] = fl
			}
			i.logEvent(fr.th, "write", fl.id, 0, fl.name, fr)
		}
	}
}

// mapIterState stands for a *reflect.MapIter.
type mapIterState struct {
	m      *omap
	kt, et types.Type
	ro     bool
	keys   []value
	pos    int
}

func rFieldByName(r rvalue, name string) rvalue {
	mustBe(r, "reflect.Value.FieldByName", reflect.Struct)
	var pkg *types.Package
	if n, ok := r.t.(*types.Named); ok {
		pkg = n.Obj().Pkg()
	}
	obj, index, _ := types.LookupFieldOrMethod(r.t, false, pkg, name)
	fv, ok := obj.(*types.Var)
	if !ok || !fv.IsField() {
		return rvalue{}
	}
	cur := r
	for k, idx := range index {
		if k > 0 && kindOfR(cur) == reflect.Ptr {
			p := cur.get().(*value)
			if p == nil {
				panic(reflectPanic("reflect: indirection through nil pointer to embedded struct"))
			}
			cur = rvalue{t: cur.t.Underlying().(*types.Pointer).Elem(), addr: p, ro: cur.ro}
		}
		st := cur.t.Underlying().(*types.Struct)
		cur = fieldByIndex(cur, st, idx)
	}
	return cur
}

func (i *interpreter) rMethodByName(r rvalue, name string) rvalue {
	if !r.valid() {
		panic(valueError("reflect.Value.MethodByName", reflect.Invalid))
	}
	if kindOfR(r) == reflect.Interface {
		itf := r.get().(iface)
		if itf.t == nil {
			panic(reflectPanic("reflect: Method on nil interface value"))
		}
		r = rvalue{t: itf.t, v: itf.v, ro: r.ro}
	}
	if !token.IsExported(name) {
		return rvalue{}
	}
	mset := i.prog.MethodSets.MethodSet(r.t)
	sel := mset.Lookup(nil, name)
	if sel == nil {
		return rvalue{}
	}
	fn := i.prog.MethodValue(sel)
	if fn == nil {
		return rvalue{}
	}
	sig := sel.Type().(*types.Signature)
	ft := types.NewSignatureType(nil, nil, nil, sig.Params(), sig.Results(), sig.Variadic())
	return rvalue{t: ft, v: &boundMethod{fn: fn, recv: r.get()}, ro: r.ro}
}

func (i *interpreter) rCall(fr *frame, r rvalue, args []rvalue) []value {
	mustBe(r, "reflect.Value.Call", reflect.Func)
	r.mustBeExported("reflect.Value.Call")
	sig := r.t.Underlying().(*types.Signature)
	fnv := r.get()
	switch f := fnv.(type) {
	case *ssa.Function:
		if f == nil {
			panic(reflectPanic("reflect: call of nil function"))
		}
	}
	n := sig.Params().Len()
	if !sig.Variadic() {
		if len(args) < n {
			panic(reflectPanic("reflect: Call with too few input arguments"))
		}
		if len(args) > n {
			panic(reflectPanic("reflect: Call with too many input arguments"))
		}
	} else if len(args) < n-1 {
		panic(reflectPanic("reflect: Call with too few input arguments"))
	}
	for _, a := range args {
		if !a.valid() {
			panic(reflectPanic("reflect: Call using zero Value argument"))
		}
	}
	var in []value
	fixed := n
	if sig.Variadic() {
		fixed = n - 1
	}
	for k := 0; k < fixed; k++ {
		pt := sig.Params().At(k).Type()
		if !types.AssignableTo(args[k].t, pt) {
			panic(reflectPanic("reflect: Call using %s as type %s", typeString(args[k].t), typeString(pt)))
		}
		args[k].mustBeExported("reflect.Value.Call")
		in = append(in, boxFor(pt, args[k]))
	}
	if sig.Variadic() {
		et := sig.Params().At(n - 1).Type().(*types.Slice).Elem()
		var rest []value
		for k := fixed; k < len(args); k++ {
			if !types.AssignableTo(args[k].t, et) {
				panic(reflectPanic("reflect: cannot use %s as type %s in Call", typeString(args[k].t), typeString(et)))
			}
			rest = append(rest, boxFor(et, args[k]))
		}
		in = append(in, rest)
	}
	var res value
	switch f := fnv.(type) {
	case *boundMethod:
		res = callSSA(i, fr, token.NoPos, f.fn, append([]value{f.recv}, in...), nil)
	default:
		res = call(i, fr, token.NoPos, fnv, in)
	}
	var out []value
	switch sig.Results().Len() {
	case 0:
	case 1:
		out = append(out, rvalue{t: sig.Results().At(0).Type(), v: res})
	default:
		tup := res.(tuple)
		for k := range tup {
			out = append(out, rvalue{t: sig.Results().At(k).Type(), v: tup[k]})
		}
	}
	return out
}

func rIsNil(r rvalue) value {
	k := mustBe(r, "reflect.Value.IsNil", reflect.Chan, reflect.Func, reflect.Map, reflect.Ptr, reflect.UnsafePointer, reflect.Interface, reflect.Slice)
	v := r.get()
	switch k {
	case reflect.Ptr:
		return v.(*value) == nil
	case reflect.Map:
		return v.(*omap) == nil
	case reflect.Slice:
		return v.([]value) == nil
	case reflect.Interface:
		return v.(iface).t == nil
	case reflect.Func:
		switch f := v.(type) {
		case *ssa.Function:
			return f == nil
		case *closure:
			return f == nil
		}
		return false
	}
	return false
}

func isZeroValue(t types.Type, v value) value {
	switch x := v.(type) {
	case sym:
		switch x.T.Sort {
		case smt.Bool:
			return mkBool(smt.Not(x.T))
		case smt.Str:
			return mkBool(smt.Eq(x.T, smt.StrConst("")))
		case smt.FP32, smt.FP64:
			return mkBool(smt.FPCmp("fp.eq", x.T, toTerm(zero(types.Typ[x.K]))))
		default:
			return mkBool(smt.Eq(x.T, smt.BVConst(x.T.Sort.Width(), 0)))
		}
	case structure:
		st := t.Underlying().(*types.Struct)
		var acc value = true
		for k := range x {
			acc = andValues(acc, isZeroValue(st.Field(k).Type(), x[k]))
		}
		return acc
	case array:
		et := t.Underlying().(*types.Array).Elem()
		var acc value = true
		for k := range x {
			acc = andValues(acc, isZeroValue(et, x[k]))
		}
		return acc
	case rvalue:
		return !x.valid()
	case []value:
		return x == nil
	case *omap:
		return x == nil
	case *value:
		return x == nil
	case iface:
		return x.t == nil
	case *ssa.Function:
		return x == nil
	case *closure:
		return x == nil
	case *boundMethod:
		return false
	}
	return equals(t, v, zero(t))
}

func andValues(a, b value) value {
	if ab, ok := a.(bool); ok {
		if !ab {
			return false
		}
		return b
	}
	if bb, ok := b.(bool); ok {
		if !bb {
			return false
		}
		return a
	}
	return mkBool(smt.And(toTerm(a), toTerm(b)))
}

func (i *interpreter) rIndex(fr *frame, r rvalue, idx value) rvalue {
	k := mustBe(r, "reflect.Value.Index", reflect.Slice, reflect.Array, reflect.String)
	oob := func(n int) targetPanic {
		return reflectPanic("reflect: %s index out of range", map[reflect.Kind]string{reflect.Slice: "slice", reflect.Array: "array", reflect.String: "string"}[k])
	}
	pick := func(n int) int {
		if s, ok := idx.(sym); ok {
			kk := i.chooseIndex(smt.BVResize(s.T, 64, true), n)
			if kk < 0 {
				panic(oob(n))
			}
			return kk
		}
		kk := asInt64(idx)
		if kk < 0 || kk >= int64(n) {
			panic(oob(n))
		}
		return int(kk)
	}
	switch k {
	case reflect.Slice:
		s := r.get().([]value)
		j := pick(len(s))
		return rvalue{t: r.t.Underlying().(*types.Slice).Elem(), addr: &s[j], ro: r.ro}
	case reflect.Array:
		et := r.t.Underlying().(*types.Array).Elem()
		if r.addr != nil {
			a := (*r.addr).(array)
			j := pick(len(a))
			return rvalue{t: et, addr: &a[j], ro: r.ro}
		}
		a := r.v.(array)
		j := pick(len(a))
		return rvalue{t: et, v: a[j], ro: r.ro}
	default:
		s, ok := r.get().(string)
		if !ok {
			panic(unsupported{"reflect Index of symbolic string"})
		}
		j := pick(len(s))
		return rvalue{t: types.Typ[types.Uint8], v: s[j], ro: r.ro}
	}
}

func rLen(r rvalue) value {
	k := mustBe(r, "reflect.Value.Len", reflect.Slice, reflect.Array, reflect.String, reflect.Map, reflect.Chan)
	v := r.get()
	switch k {
	case reflect.Slice:
		return len(v.([]value))
	case reflect.Array:
		return len(v.(array))
	case reflect.Map:
		return v.(*omap).len()
	case reflect.String:
		if s, ok := v.(sym); ok {
			return symStrLen(s)
		}
		return len(v.(string))
	}
	panic(unsupported{"reflect Len of chan"})
}

func mapKeyFor(r rvalue, key rvalue, method string) value {
	mt := r.t.Underlying().(*types.Map)
	if !key.valid() {
		panic(valueError(method, reflect.Invalid))
	}
	if !types.AssignableTo(key.t, mt.Key()) {
		panic(reflectPanic("%s: value of type %s is not assignable to type %s", method, typeString(key.t), typeString(mt.Key())))
	}
	return boxFor(mt.Key(), key)
}

func rMapIndex(r rvalue, key rvalue) rvalue {
	mustBe(r, "reflect.Value.MapIndex", reflect.Map)
	mt := r.t.Underlying().(*types.Map)
	k := mapKeyFor(r, key, "reflect.Value.MapIndex")
	m := r.get().(*omap)
	v, ok := m.lookup(k)
	if !ok {
		return rvalue{}
	}
	return rvalue{t: mt.Elem(), v: v, ro: r.ro || key.ro}
}

func rSetMapIndex(r rvalue, key, elem rvalue) {
	mustBe(r, "reflect.Value.SetMapIndex", reflect.Map)
	r.mustBeExported("reflect.Value.SetMapIndex")
	key.mustBeExported("reflect.Value.SetMapIndex")
	mt := r.t.Underlying().(*types.Map)
	k := mapKeyFor(r, key, "reflect.Value.SetMapIndex")
	m := r.get().(*omap)
	if !elem.valid() {
		m.delete(k)
		return
	}
	elem.mustBeExported("reflect.Value.SetMapIndex")
	if !types.AssignableTo(elem.t, mt.Elem()) {
		panic(reflectPanic("reflect.Value.SetMapIndex: value of type %s is not assignable to type %s", typeString(elem.t), typeString(mt.Elem())))
	}
	if m == nil {
		panic(reflectPanic("assignment to entry in nil map"))
	}
	m.insert(k, boxFor(mt.Elem(), elem))
}

func rSet(r rvalue, x rvalue) {
	r.mustBeAssignable("reflect.Value.Set")
	x.mustBeExported("reflect.Set")
	if !types.AssignableTo(x.t, r.t) {
		panic(reflectPanic("reflect.Set: value of type %s is not assignable to type %s", typeString(x.t), typeString(r.t)))
	}
	store(r.t, r.addr, boxFor(r.t, x))
}

func basicKindOfR(r rvalue) types.BasicKind {
	k, _ := basicKindOf(r.t)
	return k
}

func isKind(k reflect.Kind, lo, hi reflect.Kind) bool { return k >= lo && k <= hi }

func (i *interpreter) reflectExternals() map[string]externalFn {
	rv := func(v value) rvalue { return v.(rvalue) }
	m := map[string]externalFn{
		"reflect.ValueOf": func(fr *frame, a []value) value { return mkValueOf(a[0]) },
		"reflect.TypeOf": func(fr *frame, a []value) value {
			return fr.i.reflectTypeIface(a[0].(iface).t)
		},
		"reflect.Zero": func(fr *frame, a []value) value {
			t := a[0].(iface).v.(rtype).t
			return rvalue{t: t, v: zero(t)}
		},
		"reflect.New": func(fr *frame, a []value) value {
			t := a[0].(iface).v.(rtype).t
			cell := new(value)
			*cell = zero(t)
			return rvalue{t: types.NewPointer(t), v: cell}
		},
		"reflect.Indirect": func(fr *frame, a []value) value {
			r := a[0].(rvalue)
			if kindOfR(r) != reflect.Ptr {
				return r
			}
			p := r.get().(*value)
			if p == nil {
				return rvalue{}
			}
			return rvalue{t: r.t.Underlying().(*types.Pointer).Elem(), addr: p, ro: r.ro}
		},
		"reflect.MakeMap": func(fr *frame, a []value) value {
			t := a[0].(iface).v.(rtype).t
			m := makeMap(t.Underlying().(*types.Map).Key(), 0).(*omap)
			m.elemT = t.Underlying().(*types.Map).Elem()
			return rvalue{t: t, v: m}
		},
		"reflect.MakeSlice": func(fr *frame, a []value) value {
			t := a[0].(iface).v.(rtype).t
			n, c := int(asInt64(a[1])), int(asInt64(a[2]))
			if n < 0 || c < n {
				panic(reflectPanic("reflect.MakeSlice: len > cap or negative"))
			}
			s := make([]value, c)
			for k := range s {
				s[k] = zero(t.Underlying().(*types.Slice).Elem())
			}
			return rvalue{t: t, v: s[:n]}
		},
		"reflect.Append": func(fr *frame, a []value) value {
			r := a[0].(rvalue)
			mustBe(r, "reflect.Append", reflect.Slice)
			et := r.t.Underlying().(*types.Slice).Elem()
			s := r.get().([]value)
			for _, x := range a[1].([]value) {
				xv := x.(rvalue)
				if !xv.valid() || !types.AssignableTo(xv.t, et) {
					panic(reflectPanic("reflect.Append: value is not assignable to the element type"))
				}
				s = append(s, boxFor(et, xv))
			}
			return rvalue{t: r.t, v: s}
		},
		"(reflect.Value).Addr": func(fr *frame, a []value) value {
			r := a[0].(rvalue)
			if r.addr == nil {
				panic(reflectPanic("reflect.Value.Addr of unaddressable value"))
			}
			return rvalue{t: types.NewPointer(r.t), v: r.addr, ro: r.ro}
		},
		"(reflect.Value).Convert": func(fr *frame, a []value) value {
			r := a[0].(rvalue)
			t := a[1].(iface).v.(rtype).t
			if !r.valid() {
				panic(valueError("reflect.Value.Convert", reflect.Invalid))
			}
			if !types.ConvertibleTo(r.t, t) {
				panic(reflectPanic("reflect.Value.Convert: value of type %s cannot be converted to type %s", typeString(r.t), typeString(t)))
			}
			if _, ok := t.Underlying().(*types.Basic); ok {
				if _, ok := r.t.Underlying().(*types.Basic); ok {
					return rvalue{t: t, v: conv(t, r.t, r.get())}
				}
			}
			if isIface(t) {
				return rvalue{t: t, v: boxFor(t, r)}
			}
			return rvalue{t: t, v: r.get()}
		},
		"(reflect.Value).Slice": func(fr *frame, a []value) value {
			r := a[0].(rvalue)
			k := mustBe(r, "reflect.Value.Slice", reflect.Slice, reflect.String)
			lo, hi := int(asInt64(a[1])), int(asInt64(a[2]))
			if k == reflect.String {
				s := r.get().(string)
				if lo < 0 || hi < lo || hi > len(s) {
					panic(reflectPanic("reflect.Value.Slice: string slice index out of bounds"))
				}
				return rvalue{t: r.t, v: s[lo:hi]}
			}
			s := r.get().([]value)
			if lo < 0 || hi < lo || hi > cap(s) {
				panic(reflectPanic("reflect.Value.Slice: slice index out of bounds"))
			}
			return rvalue{t: r.t, v: s[lo:hi]}
		},
		"(reflect.Value).NumMethod": func(fr *frame, a []value) value {
			r := a[0].(rvalue)
			if !r.valid() {
				panic(valueError("reflect.Value.NumMethod", reflect.Invalid))
			}
			n := 0
			ms := fr.i.prog.MethodSets.MethodSet(r.t)
			for k := 0; k < ms.Len(); k++ {
				if ms.At(k).Obj().Exported() {
					n++
				}
			}
			return n
		},
		"(reflect.Kind).String": func(fr *frame, a []value) value {
			return reflect.Kind(asInt64(a[0])).String()
		},
		"(reflect.Value).Kind":    func(fr *frame, a []value) value { return uint(kindOfR(rv(a[0]))) },
		"(reflect.Value).IsValid": func(fr *frame, a []value) value { return rv(a[0]).valid() },
		"(reflect.Value).Type": func(fr *frame, a []value) value {
			r := rv(a[0])
			if !r.valid() {
				panic(valueError("reflect.Value.Type", reflect.Invalid))
			}
			return fr.i.reflectTypeIface(r.t)
		},
		"(reflect.Value).CanSet":  func(fr *frame, a []value) value { r := rv(a[0]); return r.addr != nil && !r.ro },
		"(reflect.Value).CanAddr": func(fr *frame, a []value) value { return rv(a[0]).addr != nil },
		"(reflect.Value).CanInterface": func(fr *frame, a []value) value {
			r := rv(a[0])
			if !r.valid() {
				panic(valueError("reflect.Value.CanInterface", reflect.Invalid))
			}
			return !r.ro
		},
		"(reflect.Value).Interface": func(fr *frame, a []value) value {
			r := rv(a[0])
			if !r.valid() {
				panic(valueError("reflect.Value.Interface", reflect.Invalid))
			}
			if r.ro {
				panic(reflectPanic("reflect.Value.Interface: cannot return value obtained from unexported field or method"))
			}
			if isIface(r.t) {
				return r.get()
			}
			return iface{t: r.t, v: r.get()}
		},
		"(reflect.Value).Elem": func(fr *frame, a []value) value {
			r := rv(a[0])
			switch mustBe(r, "reflect.Value.Elem", reflect.Ptr, reflect.Interface) {
			case reflect.Ptr:
				p := r.get().(*value)
				if p == nil {
					return rvalue{}
				}
				return rvalue{t: r.t.Underlying().(*types.Pointer).Elem(), addr: p, ro: r.ro}
			default:
				itf := r.get().(iface)
				if itf.t == nil {
					return rvalue{}
				}
				return rvalue{t: itf.t, v: itf.v, ro: r.ro}
			}
		},
		"(reflect.Value).Int": func(fr *frame, a []value) value {
			r := rv(a[0])
			if !isKind(kindOfR(r), reflect.Int, reflect.Int64) {
				panic(valueError("reflect.Value.Int", kindOfR(r)))
			}
			return convAny(types.Int64, r.get())
		},
		"(reflect.Value).Uint": func(fr *frame, a []value) value {
			r := rv(a[0])
			if !isKind(kindOfR(r), reflect.Uint, reflect.Uintptr) {
				panic(valueError("reflect.Value.Uint", kindOfR(r)))
			}
			return convAny(types.Uint64, r.get())
		},
		"(reflect.Value).Float": func(fr *frame, a []value) value {
			r := rv(a[0])
			if !isKind(kindOfR(r), reflect.Float32, reflect.Float64) {
				panic(valueError("reflect.Value.Float", kindOfR(r)))
			}
			return convAny(types.Float64, r.get())
		},
		"(reflect.Value).Bool": func(fr *frame, a []value) value {
			r := rv(a[0])
			mustBe(r, "reflect.Value.Bool", reflect.Bool)
			return r.get()
		},
		"(reflect.Value).Complex": func(fr *frame, a []value) value {
			r := rv(a[0])
			mustBe(r, "reflect.Value.Complex", reflect.Complex64, reflect.Complex128)
			return widen(r.get())
		},
		"(reflect.Value).String": func(fr *frame, a []value) value {
			r := rv(a[0])
			if !r.valid() {
				return "<invalid Value>"
			}
			if kindOfR(r) == reflect.String {
				return r.get()
			}
			return "<" + typeString(r.t) + " Value>"
		},
		"(reflect.Value).Len": func(fr *frame, a []value) value { return rLen(rv(a[0])) },
		"(reflect.Value).Cap": func(fr *frame, a []value) value {
			r := rv(a[0])
			switch mustBe(r, "reflect.Value.Cap", reflect.Slice, reflect.Array, reflect.Chan) {
			case reflect.Slice:
				return cap(r.get().([]value))
			case reflect.Array:
				return len(r.get().(array))
			}
			panic(unsupported{"reflect Cap of chan"})
		},
		"(reflect.Value).IsNil": func(fr *frame, a []value) value { return rIsNil(rv(a[0])) },
		"(reflect.Value).IsZero": func(fr *frame, a []value) value {
			r := rv(a[0])
			if !r.valid() {
				panic(valueError("reflect.Value.IsZero", reflect.Invalid))
			}
			return isZeroValue(r.t, r.get())
		},
		"(reflect.Value).NumField": func(fr *frame, a []value) value {
			r := rv(a[0])
			mustBe(r, "reflect.Value.NumField", reflect.Struct)
			return r.t.Underlying().(*types.Struct).NumFields()
		},
		"(reflect.Value).Field": func(fr *frame, a []value) value {
			r := rv(a[0])
			mustBe(r, "reflect.Value.Field", reflect.Struct)
			st := r.t.Underlying().(*types.Struct)
			k := int(asInt64(a[1]))
			if k < 0 || k >= st.NumFields() {
				panic(reflectPanic("reflect: Field index out of range"))
			}
			return fieldByIndex(r, st, k)
		},
		"(reflect.Value).FieldByName":  func(fr *frame, a []value) value { return rFieldByName(rv(a[0]), a[1].(string)) },
		"(reflect.Value).FieldByIndex": func(fr *frame, a []value) value {
			cur := rv(a[0])
			for k, x := range a[1].([]value) {
				if k > 0 && kindOfR(cur) == reflect.Ptr {
					p := cur.get().(*value)
					if p == nil {
						panic(reflectPanic("reflect: indirection through nil pointer to embedded struct"))
					}
					cur = rvalue{t: cur.t.Underlying().(*types.Pointer).Elem(), addr: p, ro: cur.ro}
				}
				mustBe(cur, "reflect.Value.FieldByIndex", reflect.Struct)
				st := cur.t.Underlying().(*types.Struct)
				idx := int(asInt64(x))
				if idx < 0 || idx >= st.NumFields() {
					panic(reflectPanic("reflect: Field index out of range"))
				}
				cur = fieldByIndex(cur, st, idx)
			}
			return cur
		},
		"(reflect.Value).MethodByName": func(fr *frame, a []value) value { return fr.i.rMethodByName(rv(a[0]), a[1].(string)) },
		"(reflect.Value).Call": func(fr *frame, a []value) value {
			var args []rvalue
			for _, x := range a[1].([]value) {
				args = append(args, x.(rvalue))
			}
			return fr.i.rCall(fr, rv(a[0]), args)
		},
		"(reflect.Value).Index":    func(fr *frame, a []value) value { return fr.i.rIndex(fr, rv(a[0]), a[1]) },
		"(reflect.Value).MapIndex": func(fr *frame, a []value) value { return rMapIndex(rv(a[0]), rv(a[1])) },
		"(reflect.Value).MapKeys": func(fr *frame, a []value) value {
			r := rv(a[0])
			mustBe(r, "reflect.Value.MapKeys", reflect.Map)
			m := r.get().(*omap)
			kt := r.t.Underlying().(*types.Map).Key()
			order := fr.i.mapOrder(m)
			out := make([]value, 0, len(order))
			for _, j := range order {
				out = append(out, rvalue{t: kt, v: m.keys[j], ro: r.ro})
			}
			return out
		},
		// MapRange: the keys present when the iterator was made, in the (explored) order; a key deleted
		// before it is reached is skipped, keys added meanwhile are not produced (one of the behaviours Go allows)
		"(reflect.Value).MapRange": func(fr *frame, a []value) value {
			r := rv(a[0])
			mustBe(r, "reflect.Value.MapRange", reflect.Map)
			m := r.get().(*omap)
			it := &mapIterState{m: m, kt: r.t.Underlying().(*types.Map).Key(), et: r.t.Underlying().(*types.Map).Elem(), ro: r.ro, pos: -1}
			for _, j := range fr.i.mapOrder(m) {
				it.keys = append(it.keys, m.keys[j])
			}
			return it
		},
		"(*reflect.MapIter).Next": func(fr *frame, a []value) value {
			it := a[0].(*mapIterState)
			for it.pos+1 < len(it.keys) {
				it.pos++
				if _, ok := it.m.lookup(it.keys[it.pos]); ok {
					fr.i.onMapAccess(fr, nil, it.m, false)
					return true
				}
			}
			it.pos = len(it.keys)
			return false
		},
		"(*reflect.MapIter).Key": func(fr *frame, a []value) value {
			it := a[0].(*mapIterState)
			if it.pos < 0 || it.pos >= len(it.keys) {
				panic(reflectPanic("MapIter.Key called before Next"))
			}
			return rvalue{t: it.kt, v: it.keys[it.pos], ro: it.ro}
		},
		"(*reflect.MapIter).Value": func(fr *frame, a []value) value {
			it := a[0].(*mapIterState)
			if it.pos < 0 || it.pos >= len(it.keys) {
				panic(reflectPanic("MapIter.Value called before Next"))
			}
			v, _ := it.m.lookup(it.keys[it.pos])
			return rvalue{t: it.et, v: v, ro: it.ro}
		},
		"(reflect.Value).SetMapIndex": func(fr *frame, a []value) value {
			rSetMapIndex(rv(a[0]), rv(a[1]), rv(a[2]))
			return nil
		},
		"(reflect.Value).Set": func(fr *frame, a []value) value {
			fr.i.hostStructAccess(fr, rv(a[1]), false)
			fr.i.hostStructAccess(fr, rv(a[0]), true)
			rSet(rv(a[0]), rv(a[1]))
			return nil
		},
		"(reflect.Value).SetInt": func(fr *frame, a []value) value {
			r := rv(a[0])
			r.mustBeAssignable("reflect.Value.SetInt")
			if !isKind(kindOfR(r), reflect.Int, reflect.Int64) {
				panic(valueError("reflect.Value.SetInt", kindOfR(r)))
			}
			*r.addr = convAny(basicKindOfR(r), a[1])
			return nil
		},
		"(reflect.Value).SetUint": func(fr *frame, a []value) value {
			r := rv(a[0])
			r.mustBeAssignable("reflect.Value.SetUint")
			if !isKind(kindOfR(r), reflect.Uint, reflect.Uintptr) {
				panic(valueError("reflect.Value.SetUint", kindOfR(r)))
			}
			*r.addr = convAny(basicKindOfR(r), a[1])
			return nil
		},
		"(reflect.Value).SetFloat": func(fr *frame, a []value) value {
			r := rv(a[0])
			r.mustBeAssignable("reflect.Value.SetFloat")
			if !isKind(kindOfR(r), reflect.Float32, reflect.Float64) {
				panic(valueError("reflect.Value.SetFloat", kindOfR(r)))
			}
			*r.addr = convAny(basicKindOfR(r), a[1])
			return nil
		},
		"(reflect.Value).SetBool": func(fr *frame, a []value) value {
			r := rv(a[0])
			r.mustBeAssignable("reflect.Value.SetBool")
			mustBe(r, "reflect.Value.SetBool", reflect.Bool)
			*r.addr = a[1]
			return nil
		},
		"(reflect.Value).SetString": func(fr *frame, a []value) value {
			r := rv(a[0])
			r.mustBeAssignable("reflect.Value.SetString")
			mustBe(r, "reflect.Value.SetString", reflect.String)
			*r.addr = a[1]
			return nil
		},
		"(reflect.Value).SetComplex": func(fr *frame, a []value) value {
			r := rv(a[0])
			r.mustBeAssignable("reflect.Value.SetComplex")
			mustBe(r, "reflect.Value.SetComplex", reflect.Complex64, reflect.Complex128)
			*r.addr = conv(r.t, types.Typ[types.Complex128], a[1])
			return nil
		},
	}
	return m
}

// call of a reflect.Type method on the model.
func (m *rtypeMethod) call(i *interpreter, args []value) value {
	t := m.recv.t
	bad := func() targetPanic {
		return reflectPanic("reflect: %s of invalid type %s", m.name, typeString(t))
	}
	switch m.name {
	case "Kind":
		return uint(reflectKind(t))
	case "String":
		return typeString(t)
	case "Name":
		if n, ok := t.(*types.Named); ok {
			return n.Obj().Name()
		}
		if b, ok := t.(*types.Basic); ok {
			return typeString(b)
		}
		return ""
	case "Elem":
		switch u := t.Underlying().(type) {
		case *types.Pointer:
			return i.reflectTypeIface(u.Elem())
		case *types.Slice:
			return i.reflectTypeIface(u.Elem())
		case *types.Array:
			return i.reflectTypeIface(u.Elem())
		case *types.Map:
			return i.reflectTypeIface(u.Elem())
		case *types.Chan:
			return i.reflectTypeIface(u.Elem())
		}
		panic(bad())
	case "Key":
		if u, ok := t.Underlying().(*types.Map); ok {
			return i.reflectTypeIface(u.Key())
		}
		panic(bad())
	case "AssignableTo":
		return types.AssignableTo(t, args[0].(iface).v.(rtype).t)
	case "ConvertibleTo":
		return types.ConvertibleTo(t, args[0].(iface).v.(rtype).t)
	case "Comparable":
		return types.Comparable(t)
	case "PkgPath":
		if n, ok := t.(*types.Named); ok && n.Obj().Pkg() != nil {
			return n.Obj().Pkg().Path()
		}
		return ""
	case "NumMethod":
		n := 0
		ms := i.prog.MethodSets.MethodSet(t)
		for k := 0; k < ms.Len(); k++ {
			if ms.At(k).Obj().Exported() {
				n++
			}
		}
		return n
	case "Out":
		if u, ok := t.Underlying().(*types.Signature); ok {
			k := int(asInt64(args[0]))
			if k < 0 || k >= u.Results().Len() {
				panic(runtimePanic(fmt.Sprintf("index out of range [%d] with length %d", k, u.Results().Len())))
			}
			return i.reflectTypeIface(u.Results().At(k).Type())
		}
		panic(bad())
	case "IsVariadic":
		if u, ok := t.Underlying().(*types.Signature); ok {
			return u.Variadic()
		}
		panic(bad())
	case "NumIn":
		if u, ok := t.Underlying().(*types.Signature); ok {
			return u.Params().Len()
		}
		panic(bad())
	case "In":
		if u, ok := t.Underlying().(*types.Signature); ok {
			k := int(asInt64(args[0]))
			if k < 0 || k >= u.Params().Len() {
				panic(runtimePanic(fmt.Sprintf("index out of range [%d] with length %d", k, u.Params().Len())))
			}
			return i.reflectTypeIface(u.Params().At(k).Type())
		}
		panic(bad())
	case "NumOut":
		if u, ok := t.Underlying().(*types.Signature); ok {
			return u.Results().Len()
		}
		panic(bad())
	case "NumField":
		if u, ok := t.Underlying().(*types.Struct); ok {
			return u.NumFields()
		}
		panic(bad())
	case "FieldByName", "Field":
		u, ok := t.Underlying().(*types.Struct)
		if !ok {
			panic(bad())
		}
		mk := func(f *types.Var, index []int) value {
			var idx []value
			for _, k := range index {
				idx = append(idx, k)
			}
			pkgPath := ""
			if !f.Exported() && f.Pkg() != nil {
				pkgPath = f.Pkg().Path()
			}
			// reflect.StructField{Name, PkgPath, Type, Tag, Offset, Index, Anonymous}
			return structure{f.Name(), pkgPath, i.reflectTypeIface(f.Type()), "", uintptr(0), idx, f.Embedded()}
		}
		if m.name == "Field" {
			k := int(asInt64(args[0]))
			if k < 0 || k >= u.NumFields() {
				panic(reflectPanic("reflect: Field index out of bounds"))
			}
			return mk(u.Field(k), []int{k})
		}
		var pkg *types.Package
		if n, ok := t.(*types.Named); ok {
			pkg = n.Obj().Pkg()
		}
		obj, index, _ := types.LookupFieldOrMethod(t, false, pkg, args[0].(string))
		if fv, ok := obj.(*types.Var); ok && fv.IsField() {
			return tuple{mk(fv, index), true}
		}
		return tuple{structure{"", "", iface{}, "", uintptr(0), []value(nil), false}, false}
	case "Len":
		if u, ok := t.Underlying().(*types.Array); ok {
			return int(u.Len())
		}
		panic(bad())
	}
	panic(unsupported{"reflect.Type." + m.name})
}
