package interp

// Parser bridge: the ANTLR runtime and the generated lexer/parser are not
// interpreted. gengine's compile entry points run in the interpreter up to
// ParseTreeWalker.Walk; there the real lexer, parser and GengineParserListener
// are run natively (helper process built from /repo) on the concrete text and
// their outcome is materialised inside the interpreted state.

import (
	"encoding/json"
	"fmt"
	"go/types"
	"math"
	"strconv"
	"strings"

	"golang.org/x/tools/go/ssa"
)

type SynErr struct {
	Line int    `json:"line"`
	Col  int    `json:"col"`
	Msg  string `json:"msg"`
}

// ParseResult is what the native front end produced for one text.
type ParseResult struct {
	LexErrors      []SynErr        `json:"lex"`
	ParseErrors    []SynErr        `json:"parse"`
	ListenerErrors []string        `json:"listener"`
	Rules          json.RawMessage `json:"rules"` // dump of kc.RuleEntities
	Panic          string          `json:"panic"`
}

type Bridge interface {
	Parse(text string) (*ParseResult, error)
}

// Node is the generic reflection dump produced by the helper.
type Node struct {
	K     string           `json:"k"`
	ID    int              `json:"id,omitempty"`
	Ref   int              `json:"ref,omitempty"`
	V     *Node            `json:"v,omitempty"`
	F     map[string]*Node `json:"f,omitempty"`
	L     []*Node          `json:"l,omitempty"`
	MK    []*Node          `json:"mk,omitempty"`
	MV    []*Node          `json:"mv,omitempty"`
	S     string           `json:"s,omitempty"`
	RKind string           `json:"rk,omitempty"`
}

type bridgeState struct {
	text          string
	haveText      bool
	filled        bool // the entry point called Fill on the token stream: the whole text is lexed before the parse
	lexListeners  []value
	parsListeners []value
	outcome       *ParseResult // nondeterministic mode: outcome chosen by the harness
	owner         map[*value]string
	forced        []value // lexErr, gramErr, listenerErr chosen by the harness (may be symbolic)
}

func (i *interpreter) deepZeroPtr(t types.Type, depth int, tag string) value {
	pt := t.Underlying().(*types.Pointer)
	cell := new(value)
	*cell = zero(pt.Elem())
	if tag != "" {
		if i.bridge.owner == nil {
			i.bridge.owner = map[*value]string{}
		}
		i.bridge.owner[cell] = tag
	}
	if st, ok := pt.Elem().Underlying().(*types.Struct); ok && depth < 4 {
		s := (*cell).(structure)
		for k := 0; k < st.NumFields(); k++ {
			f := st.Field(k)
			if f.Embedded() {
				if _, ok := f.Type().Underlying().(*types.Pointer); ok {
					if _, ok := f.Type().Underlying().(*types.Pointer).Elem().Underlying().(*types.Struct); ok {
						s[k] = i.deepZeroPtr(f.Type(), depth+1, tag)
					}
				}
			}
		}
	}
	return cell
}

func (i *interpreter) bridgeExternal(fn *ssa.Function, name string) externalFn {
	short := fn.Name()
	res := fn.Signature.Results()
	switch {
	case short == "NewInputStream":
		return func(fr *frame, a []value) value {
			i := fr.i
			i.stub("antlr front end via native bridge")
			s, ok := a[0].(string)
			if !ok {
				panic(unsupported{"symbolic rule text"})
			}
			i.bridge.text, i.bridge.haveText, i.bridge.filled = s, true, false
			i.bridge.lexListeners, i.bridge.parsListeners = nil, nil
			return i.deepZeroPtr(res.At(0).Type(), 0, "")
		}
	case short == "NewgengineLexer":
		return func(fr *frame, a []value) value { return fr.i.deepZeroPtr(res.At(0).Type(), 0, "Lexer") }
	case short == "NewgengineParser":
		return func(fr *frame, a []value) value { return fr.i.deepZeroPtr(res.At(0).Type(), 0, "Parser") }
	case short == "NewCommonTokenStream":
		return func(fr *frame, a []value) value { return fr.i.deepZeroPtr(res.At(0).Type(), 0, "") }
	case short == "AddErrorListener":
		return func(fr *frame, a []value) value {
			i := fr.i
			recv := fn.Signature.Recv()
			rt := ""
			if recv != nil {
				rt = recv.Type().String()
			}
			if p, ok := a[0].(*value); ok {
				if tag := i.bridge.owner[p]; tag != "" {
					rt = tag
				}
			}
			switch {
			case strings.Contains(rt, "Lexer"):
				i.bridge.lexListeners = append(i.bridge.lexListeners, a[1])
			case strings.Contains(rt, "Parser"):
				i.bridge.parsListeners = append(i.bridge.parsListeners, a[1])
			default:
				panic(unsupported{"AddErrorListener on " + rt})
			}
			return nil
		}
	case short == "RemoveErrorListeners":
		return func(fr *frame, a []value) value {
			recv := fn.Signature.Recv()
			tag := ""
			if p, ok := a[0].(*value); ok {
				tag = fr.i.bridge.owner[p]
			}
			if tag == "Lexer" || recv != nil && strings.Contains(recv.Type().String(), "Lexer") {
				fr.i.bridge.lexListeners = nil
			} else {
				fr.i.bridge.parsListeners = nil
			}
			return nil
		}
	case short == "Fill":
		return func(fr *frame, a []value) value { fr.i.bridge.filled = true; return nil }
	case short == "Primary":
		return func(fr *frame, a []value) value { return iface{} }
	case short == "Walk":
		return func(fr *frame, a []value) value { fr.i.bridgeWalk(fr, a[1]); return nil }
	}
	return func(fr *frame, a []value) value {
		panic(unsupported{"antlr entry point " + name})
	}
}

func (i *interpreter) callMethod(fr *frame, recv value, name string, args ...value) value {
	itf := recv.(iface)
	if itf.t == nil {
		panic(runtimePanic("invalid memory address or nil pointer dereference"))
	}
	sel := i.prog.MethodSets.MethodSet(itf.t).Lookup(nil, name)
	if sel == nil {
		panic(unsupported{fmt.Sprintf("method %s not found on %s", name, itf.t)})
	}
	fn := i.prog.MethodValue(sel)
	return callSSA(i, fr, 0, fn, append([]value{itf.v}, args...), nil)
}

// FillMark in front of a text handed to Bridge.Parse asks for the token stream to be filled before the parse.
const FillMark = "\x00fill\x00"

func (i *interpreter) bridgeWalk(fr *frame, listener value) {
	b := i.bridge
	if !b.haveText {
		panic(unsupported{"Walk without a recorded input stream"})
	}
	var pr *ParseResult
	if b.outcome != nil {
		pr = b.outcome
	} else {
		if i.cfg.Bridge == nil {
			panic(unsupported{"no parser bridge configured"})
		}
		var err error
		t := b.text
		if b.filled {
			t = FillMark + t
		}
		pr, err = i.cfg.Bridge.Parse(t)
		if err != nil {
			panic(unsupported{"parser bridge failed: " + err.Error()})
		}
	}
	if b.forced != nil && b.text == outcomeGoodText {
		// nondeterministic front end: the harness decides which error kinds occur
		cp := *pr
		cp.LexErrors, cp.ParseErrors, cp.ListenerErrors = nil, nil, nil
		flag := func(v value) bool {
			if s, ok := v.(sym); ok {
				return i.branch(s.T)
			}
			return v.(bool)
		}
		if flag(b.forced[0]) {
			cp.LexErrors = []SynErr{{Line: 3, Col: 12, Msg: "token recognition error at: '#'"}}
		}
		if flag(b.forced[1]) {
			cp.ParseErrors = []SynErr{{Line: 9, Col: 0, Msg: "missing 'end' at '<EOF>'"}}
		}
		if flag(b.forced[2]) {
			cp.ListenerErrors = []string{"already existed entity's name \"x\""}
		}
		pr = &cp
	}
	if pr.Panic != "" {
		// the real front end panicked on this text: same effect here
		panic(targetPanic{v: iface{t: types.Typ[types.String], v: pr.Panic}})
	}
	deliver := func(ls []value, errs []SynErr) {
		for _, e := range errs {
			for _, l := range ls {
				i.callMethod(fr, l, "SyntaxError", iface{}, iface{}, e.Line, e.Col, e.Msg, iface{})
			}
		}
	}
	deliver(b.lexListeners, pr.LexErrors)
	deliver(b.parsListeners, pr.ParseErrors)

	lp := listener.(iface)
	lptr := lp.v.(*value)
	lt := mustDeref(lp.t).Underlying().(*types.Struct)
	ls := (*lptr).(structure)
	var kc *value
	for k := 0; k < lt.NumFields(); k++ {
		switch lt.Field(k).Name() {
		case "ParseErrors":
			var errs []value
			if len(pr.ListenerErrors) > 0 {
				errs = []value{}
			} else {
				errs = make([]value, 0)
			}
			for _, e := range pr.ListenerErrors {
				errs = append(errs, e)
			}
			ls[k] = errs
		case "KnowledgeContext":
			kc = ls[k].(*value)
		}
	}
	if kc == nil {
		panic(unsupported{"listener without KnowledgeContext"})
	}
	if len(pr.Rules) == 0 {
		return
	}
	var root Node
	if err := json.Unmarshal(pr.Rules, &root); err != nil {
		panic(unsupported{"bad AST dump: " + err.Error()})
	}
	kcT := mustDeref(lt.Field(fieldIndex(lt, "KnowledgeContext")).Type())
	kst := kcT.Underlying().(*types.Struct)
	ks := (*kc).(structure)
	ri := fieldIndex(kst, "RuleEntities")
	mt := kst.Field(ri).Type()
	mat := &materialiser{i: i, memo: map[int]*value{}}
	m := mat.build(mt, &root).(*omap)
	dst, _ := ks[ri].(*omap)
	if dst == nil {
		ks[ri] = m
		return
	}
	for _, k := range m.order() {
		dst.insert(m.keys[k], m.vals[k])
	}
}

func fieldIndex(st *types.Struct, name string) int {
	for k := 0; k < st.NumFields(); k++ {
		if st.Field(k).Name() == name {
			return k
		}
	}
	panic(unsupported{"no field " + name})
}

type materialiser struct {
	i    *interpreter
	memo map[int]*value
}

func (m *materialiser) build(t types.Type, n *Node) value {
	if n == nil || n.K == "nil" || n.K == "zero" {
		return zero(t)
	}
	if isReflectValueType(t) {
		return m.rvalue(n)
	}
	switch u := t.Underlying().(type) {
	case *types.Pointer:
		if n.K == "ref" {
			if p, ok := m.memo[n.Ref]; ok {
				return p
			}
			panic(unsupported{"AST dump: dangling reference"})
		}
		cell := new(value)
		m.memo[n.ID] = cell
		*cell = m.build(u.Elem(), n.V)
		return cell
	case *types.Struct:
		s := zero(t).(structure)
		for k := 0; k < u.NumFields(); k++ {
			f := u.Field(k)
			if fn, ok := n.F[f.Name()]; ok {
				s[k] = m.build(f.Type(), fn)
			}
		}
		return s
	case *types.Slice:
		out := make([]value, 0, len(n.L))
		for _, e := range n.L {
			out = append(out, m.build(u.Elem(), e))
		}
		return out
	case *types.Map:
		om := makeMap(u.Key(), 0).(*omap)
		om.elemT = u.Elem()
		for k := range n.MK {
			om.insert(m.build(u.Key(), n.MK[k]), m.build(u.Elem(), n.MV[k]))
		}
		return om
	case *types.Basic:
		return m.basic(u, n)
	}
	panic(unsupported{fmt.Sprintf("AST dump: cannot materialise %s from %s", t, n.K)})
}

func (m *materialiser) basic(b *types.Basic, n *Node) value {
	k := normKind(b.Kind())
	switch k {
	case types.String:
		return n.S
	case types.Bool:
		return n.S == "true"
	case types.Float64, types.Float32:
		bits, _ := strconv.ParseUint(n.S, 10, 64)
		f := math.Float64frombits(bits)
		if k == types.Float32 {
			return float32(f)
		}
		return f
	}
	if w, signed, _ := kindInfo(k); w != 0 {
		if signed {
			v, _ := strconv.ParseInt(n.S, 10, 64)
			if k == types.Int64 {
				if sv, ok := m.i.salMarks[v]; ok {
					return sv
				}
			}
			return conv(types.Typ[k], types.Typ[types.Int64], v)
		}
		v, _ := strconv.ParseUint(n.S, 10, 64)
		return conv(types.Typ[k], types.Typ[types.Uint64], v)
	}
	panic(unsupported{"AST dump: basic kind " + b.Name()})
}

func (m *materialiser) rvalue(n *Node) value {
	if n.K != "rvalue" || n.RKind == "" || n.RKind == "invalid" {
		return rvalue{}
	}
	var k types.BasicKind
	switch n.RKind {
	case "int64":
		k = types.Int64
	case "float64":
		k = types.Float64
	case "string":
		k = types.String
	case "bool":
		k = types.Bool
	default:
		panic(unsupported{"AST dump: reflect.Value of kind " + n.RKind})
	}
	t := types.Typ[k]
	return rvalue{t: t, v: m.basic(t, n)}
}
