// Package interp is a path-based symbolic interpreter for go/ssa, forked from
// golang.org/x/tools/go/ssa/interp (BSD licence, The Go Authors).
//
// Differences from upstream: scalar leaves may be symbolic SMT terms; a branch
// on a symbolic condition forks (by re-execution from a decision prefix);
// goroutines are cooperative deterministic threads that log events; maps are
// insertion ordered; reflect, sync, fmt, strings, sort and the ANTLR front end
// are intercepted (see extern.go, rmodel.go, bridge.go); runtime panics are
// modelled explicitly; engine aborts never run target defers.
package interp

import (
	"fmt"
	"go/token"
	"go/types"
	"os"
	"runtime"
	"slices"
	"strings"

	"golang.org/x/tools/go/ssa"
)

type continuation int

const (
	kNext continuation = iota
	kReturn
	kJump
)

var printTarget = os.Getenv("SYMGO_PRINT") != ""

type deferred struct {
	fn    value
	args  []value
	instr *ssa.Defer
	tail  *deferred
}

type frame struct {
	i                *interpreter
	caller           *frame
	fn               *ssa.Function
	block, prevBlock *ssa.BasicBlock
	env              map[ssa.Value]value // dynamic values of SSA variables
	locals           []value
	defers           *deferred
	result           value
	panicking        bool
	panic            interface{}
	phitemps         []value // temporaries for parallel phi assignment
	th               *thread
	callpos          token.Pos
}

func mustDeref(t types.Type) types.Type {
	if p, ok := t.Underlying().(*types.Pointer); ok {
		return p.Elem()
	}
	panic(fmt.Sprintf("mustDeref: %v is not a pointer", t))
}

// runtimePanic is a modelled Go runtime panic of the target program.
func runtimePanic(msg string) targetPanic {
	return targetPanic{v: iface{t: types.Typ[types.String], v: "runtime error: " + msg}, runtime: true}
}

// engineAbort unwinds the whole path without running target defers.
type engineAbort struct {
	kind string // "infeasible", "unsupported", "violation", "crash", "deadlock", "steps", "done"
	msg  string
}

func isEngineAbort(p interface{}) bool {
	switch p.(type) {
	case engineAbort, unsupported:
		return true
	}
	return false
}

func (fr *frame) get(key ssa.Value) value {
	switch key := key.(type) {
	case nil:
		return nil
	case *ssa.Function, *ssa.Builtin:
		return key
	case *ssa.Const:
		return constValue(key)
	case *ssa.Global:
		if r, ok := fr.i.globals[key]; ok {
			return r
		}
		// lazily allocate globals of packages whose init we do not run
		cell := zero(mustDeref(key.Type()))
		fr.i.globals[key] = &cell
		return &cell
	}
	if r, ok := fr.env[key]; ok {
		return r
	}
	panic(fmt.Sprintf("get: no value for %T: %v", key, key.Name()))
}

func (fr *frame) runDefer(d *deferred) {
	var ok bool
	defer func() {
		if !ok {
			p := recover()
			if isEngineAbort(p) {
				panic(p)
			}
			fr.panicking = true
			fr.panic = p
		}
	}()
	call(fr.i, fr, d.instr.Pos(), d.fn, d.args)
	ok = true
}

func (fr *frame) runDefers() {
	for d := fr.defers; d != nil; d = d.tail {
		fr.runDefer(d)
	}
	fr.defers = nil
	if fr.panicking {
		panic(fr.panic) // new panic, or still panicking
	}
}

func lookupMethod(i *interpreter, typ types.Type, meth *types.Func) *ssa.Function {
	return i.prog.LookupMethod(typ, meth.Pkg(), meth.Name())
}

func (fr *frame) nilCheck(p *value) *value {
	if p == nil {
		panic(runtimePanic("invalid memory address or nil pointer dereference"))
	}
	return p
}

// index resolves a possibly symbolic index against length n, forking over
// the in-range values and the out-of-range case.
func (fr *frame) index(idx value, n int) int {
	if s, ok := idx.(sym); ok {
		w, signed, _ := kindInfo(s.K)
		if w == 0 {
			panic(unsupported{"symbolic index of non-integer kind"})
		}
		t64 := smtResize(s, 64, signed)
		k := fr.i.chooseIndex(t64, n)
		if k < 0 {
			panic(runtimePanic(fmt.Sprintf("index out of range [symbolic] with length %d", n)))
		}
		return k
	}
	k := asInt64(idx)
	if k < 0 || k >= int64(n) {
		panic(runtimePanic(fmt.Sprintf("index out of range [%d] with length %d", k, n)))
	}
	return int(k)
}

func visitInstr(fr *frame, instr ssa.Instruction) continuation {
	i := fr.i
	i.steps++
	if i.steps > i.maxSteps {
		panic(engineAbort{kind: "steps", msg: fmt.Sprintf("step budget %d exhausted in %s", i.maxSteps, fr.fn)})
	}
	switch instr := instr.(type) {
	case *ssa.DebugRef:
		// no-op

	case *ssa.UnOp:
		x := fr.get(instr.X)
		if instr.Op == token.ARROW {
			ch, _ := x.(*chanv)
			v, ok := i.chanRecv(fr, ch)
			if instr.CommaOk {
				fr.env[instr] = tuple{v, ok}
			} else {
				fr.env[instr] = v
			}
		} else if instr.Op == token.MUL {
			p := fr.nilCheck(x.(*value))
			i.onLoad(fr, instr, p)
			fr.env[instr] = load(mustDeref(instr.X.Type()), p)
		} else {
			fr.env[instr] = unop(instr, x)
		}

	case *ssa.BinOp:
		fr.env[instr] = i.binop(instr.Op, instr.X.Type(), fr.get(instr.X), fr.get(instr.Y))

	case *ssa.Call:
		fn, args := prepareCall(fr, &instr.Call)
		fr.env[instr] = call(fr.i, fr, instr.Pos(), fn, args)

	case *ssa.ChangeInterface:
		fr.env[instr] = fr.get(instr.X)

	case *ssa.ChangeType:
		fr.env[instr] = fr.get(instr.X) // (can't fail)

	case *ssa.Convert:
		fr.env[instr] = conv(instr.Type(), instr.X.Type(), fr.get(instr.X))

	case *ssa.SliceToArrayPointer:
		fr.env[instr] = sliceToArrayPointer(instr.Type(), instr.X.Type(), fr.get(instr.X))

	case *ssa.MakeInterface:
		fr.env[instr] = iface{t: instr.X.Type(), v: fr.get(instr.X)}

	case *ssa.Extract:
		fr.env[instr] = fr.get(instr.Tuple).(tuple)[instr.Index]

	case *ssa.Slice:
		fr.env[instr] = sliceOp(fr, fr.get(instr.X), fr.get(instr.Low), fr.get(instr.High), fr.get(instr.Max))

	case *ssa.Return:
		switch len(instr.Results) {
		case 0:
		case 1:
			fr.result = fr.get(instr.Results[0])
		default:
			var res []value
			for _, r := range instr.Results {
				res = append(res, fr.get(r))
			}
			fr.result = tuple(res)
		}
		fr.block = nil
		return kReturn

	case *ssa.RunDefers:
		fr.runDefers()

	case *ssa.Panic:
		panic(targetPanic{v: fr.get(instr.X)})

	case *ssa.Send:
		ch, _ := fr.get(instr.Chan).(*chanv)
		i.chanSend(fr, ch, fr.get(instr.X))

	case *ssa.Store:
		p := fr.nilCheck(fr.get(instr.Addr).(*value))
		i.onStore(fr, instr, p)
		store(mustDeref(instr.Addr.Type()), p, fr.get(instr.Val))

	case *ssa.If:
		succ := 1
		c := fr.get(instr.Cond)
		var taken bool
		if cs, ok := c.(sym); ok {
			taken = i.branch(cs.T)
		} else {
			taken = c.(bool)
		}
		if taken {
			succ = 0
		}
		fr.prevBlock, fr.block = fr.block, fr.block.Succs[succ]
		return kJump

	case *ssa.Jump:
		fr.prevBlock, fr.block = fr.block, fr.block.Succs[0]
		return kJump

	case *ssa.Defer:
		fn, args := prepareCall(fr, &instr.Call)
		defers := &fr.defers
		if into := fr.get(instr.DeferStack); into != nil {
			defers = into.(**deferred)
		}
		*defers = &deferred{
			fn:    fn,
			args:  args,
			instr: instr,
			tail:  *defers,
		}

	case *ssa.Go:
		fn, args := prepareCall(fr, &instr.Call)
		i.spawn(fr, instr, fn, args)

	case *ssa.MakeChan:
		i.nextChanID++
		fr.env[instr] = &chanv{id: i.nextChanID, cap: int(asInt64(fr.get(instr.Size))), elemT: instr.Type().Underlying().(*types.Chan).Elem()}

	case *ssa.Alloc:
		var addr *value
		if instr.Heap {
			addr = new(value)
			fr.env[instr] = addr
		} else {
			addr = fr.env[instr].(*value)
		}
		*addr = zero(mustDeref(instr.Type()))
		if instr.Heap {
			i.trackAlloc(fr, instr, addr)
		}

	case *ssa.MakeSlice:
		n := asInt64(fr.get(instr.Cap))
		if l := asInt64(fr.get(instr.Len)); l < 0 || l > 1<<40 {
			panic(runtimePanic("makeslice: len out of range"))
		} else if n < l || n > 1<<40 {
			panic(runtimePanic("makeslice: cap out of range"))
		}
		slice := make([]value, n)
		tElt := instr.Type().Underlying().(*types.Slice).Elem()
		for i := range slice {
			slice[i] = zero(tElt)
		}
		fr.env[instr] = slice[:asInt64(fr.get(instr.Len))]

	case *ssa.MakeMap:
		m := makeMap(instr.Type().Underlying().(*types.Map).Key(), 0).(*omap)
		m.elemT = instr.Type().Underlying().(*types.Map).Elem()
		i.nextMapID++
		m.id = i.nextMapID
		i.onMakeMap(fr, instr, m)
		fr.env[instr] = m

	case *ssa.Range:
		fr.env[instr] = i.rangeIter(fr, instr, fr.get(instr.X), instr.X.Type())

	case *ssa.Next:
		fr.env[instr] = fr.get(instr.Iter).(iter).next()

	case *ssa.FieldAddr:
		p := fr.nilCheck(fr.get(instr.X).(*value))
		cell := &(*p).(structure)[instr.Field]
		i.trackFieldAddr(fr, instr, p, cell)
		fr.env[instr] = cell

	case *ssa.Field:
		fr.env[instr] = fr.get(instr.X).(structure)[instr.Field]

	case *ssa.IndexAddr:
		x := fr.get(instr.X)
		idx := fr.get(instr.Index)
		switch x := x.(type) {
		case []value:
			fr.env[instr] = &x[fr.index(idx, len(x))]
		case *value: // *array
			a := (*fr.nilCheck(x)).(array)
			fr.env[instr] = &a[fr.index(idx, len(a))]
		default:
			panic(fmt.Sprintf("unexpected x type in IndexAddr: %T", x))
		}

	case *ssa.Index:
		x := fr.get(instr.X)
		idx := fr.get(instr.Index)
		switch x := x.(type) {
		case array:
			fr.env[instr] = x[fr.index(idx, len(x))]
		case string:
			fr.env[instr] = x[fr.index(idx, len(x))]
		default:
			panic(fmt.Sprintf("unexpected x type in Index: %T", x))
		}

	case *ssa.Lookup:
		x := fr.get(instr.X)
		if m, ok := x.(*omap); ok {
			i.onMapAccess(fr, instr, m, false)
		}
		fr.env[instr] = lookup(instr, x, fr.get(instr.Index))

	case *ssa.MapUpdate:
		m := fr.get(instr.Map).(*omap)
		i.onMapAccess(fr, instr, m, true)
		m.insert(fr.get(instr.Key), fr.get(instr.Value))

	case *ssa.TypeAssert:
		fr.env[instr] = typeAssert(fr.i, instr, fr.get(instr.X).(iface))

	case *ssa.MakeClosure:
		var bindings []value
		for _, binding := range instr.Bindings {
			bindings = append(bindings, fr.get(binding))
		}
		fr.env[instr] = &closure{instr.Fn.(*ssa.Function), bindings}

	case *ssa.Phi:
		panic("unreachable: phis are processed at block entry")

	case *ssa.Select:
		fr.env[instr] = i.selectOp(fr, instr)

	default:
		panic(fmt.Sprintf("unexpected instruction: %T", instr))
	}
	return kNext
}

// sliceOp is slice() with Go's bounds panics.
func sliceOp(fr *frame, x, lo, hi, max value) value {
	if hasSym(lo) || hasSym(hi) || hasSym(max) {
		panic(unsupported{"symbolic slice bounds"})
	}
	var Len, Cap int
	switch x := x.(type) {
	case string:
		Len, Cap = len(x), len(x)
	case sym:
		panic(unsupported{"slicing a symbolic string"})
	case []value:
		Len, Cap = len(x), cap(x)
	case *value:
		a := (*fr.nilCheck(x)).(array)
		Len, Cap = len(a), cap(a)
	}
	l, h, m := int64(0), int64(Len), int64(Cap)
	if lo != nil {
		l = asInt64(lo)
	}
	if hi != nil {
		h = asInt64(hi)
	}
	if max != nil {
		m = asInt64(max)
	}
	if _, isStr := x.(string); isStr {
		if l < 0 || h < l || h > int64(Len) {
			panic(runtimePanic(fmt.Sprintf("slice bounds out of range [%d:%d] with length %d", l, h, Len)))
		}
	} else if l < 0 || h < l || m < h || m > int64(Cap) {
		panic(runtimePanic(fmt.Sprintf("slice bounds out of range [%d:%d:%d] with capacity %d", l, h, m, Cap)))
	}
	return slice(x, lo, hi, max)
}

func prepareCall(fr *frame, call *ssa.CallCommon) (fn value, args []value) {
	v := fr.get(call.Value)
	if call.Method == nil {
		fn = v
	} else {
		recv := v.(iface)
		if recv.t == nil {
			panic(runtimePanic("invalid memory address or nil pointer dereference (method call on nil interface)"))
		}
		if rt, ok := recv.v.(rtype); ok {
			fn = &rtypeMethod{name: call.Method.Name(), recv: rt}
		} else if f := lookupMethod(fr.i, recv.t, call.Method); f == nil {
			panic(fmt.Sprintf("method set for dynamic type %v does not contain %s", recv.t, call.Method))
		} else {
			fn = f
			args = append(args, recv.v)
		}
	}
	for _, arg := range call.Args {
		args = append(args, fr.get(arg))
	}
	return
}

func call(i *interpreter, caller *frame, callpos token.Pos, fn value, args []value) value {
	switch fn := fn.(type) {
	case *ssa.Function:
		if fn == nil {
			panic(runtimePanic("invalid memory address or nil pointer dereference (call of nil func)"))
		}
		return callSSA(i, caller, callpos, fn, args, nil)
	case *closure:
		return callSSA(i, caller, callpos, fn.Fn, args, fn.Env)
	case *ssa.Builtin:
		return callBuiltin(caller, callpos, fn, args)
	case *rtypeMethod:
		return fn.call(i, args)
	case *boundMethod:
		return callSSA(i, caller, callpos, fn.fn, append([]value{fn.recv}, args...), nil)
	}
	panic(fmt.Sprintf("cannot call %T", fn))
}

func loc(fset *token.FileSet, pos token.Pos) string {
	if pos == token.NoPos {
		return ""
	}
	return " at " + fset.Position(pos).String()
}

func callSSA(i *interpreter, caller *frame, callpos token.Pos, fn *ssa.Function, args []value, env []value) value {
	fr := &frame{
		i:       i,
		caller:  caller,
		fn:      fn,
		callpos: callpos,
	}
	if caller != nil {
		fr.th = caller.th
	} else {
		fr.th = i.cur
	}
	if fn.Parent() == nil {
		if ext, ok := i.lookupExternal(fn); ok {
			return ext(fr, args)
		}
		if fn.Blocks == nil {
			panic(unsupported{"no code for function: " + fn.String()})
		}
	}
	i.noteFunc(fn)

	if fn.TypeParams().Len() > 0 && len(fn.TypeArgs()) == 0 {
		panic("interp requires ssa.BuilderMode to include InstantiateGenerics to execute generics")
	}

	fr.env = make(map[ssa.Value]value)
	fr.block = fn.Blocks[0]
	fr.locals = make([]value, len(fn.Locals))
	for i, l := range fn.Locals {
		fr.locals[i] = zero(mustDeref(l.Type()))
		fr.env[l] = &fr.locals[i]
	}
	for i, p := range fn.Params {
		fr.env[p] = args[i]
	}
	for i, fv := range fn.FreeVars {
		fr.env[fv] = env[i]
	}
	for fr.block != nil {
		runFrame(fr)
	}
	return fr.result
}

func runFrame(fr *frame) {
	defer func() {
		if fr.block == nil {
			return // normal return
		}
		p := recover()
		if isEngineAbort(p) {
			panic(p)
		}
		if re, ok := p.(runtime.Error); ok {
			// A Go runtime error inside the interpreter while executing target
			// code: an interpreter gap, not target behaviour.
			buf := make([]byte, 4096)
			buf = buf[:runtime.Stack(buf, false)]
			panic(unsupported{fmt.Sprintf("interpreter fault in %s: %v\n%s", fr.fn, re, buf)})
		}
		if s, ok := p.(string); ok {
			panic(unsupported{fmt.Sprintf("interpreter panic in %s: %s", fr.fn, s)})
		}
		fr.panicking = true
		fr.panic = p
		fr.runDefers()
		fr.block = fr.fn.Recover
		if fr.block == nil {
			// recovered in a function without named results: zero results
			fr.result = zeroResult(fr.fn)
		}
	}()

	for {
		nonPhis := executePhis(fr)
		for _, instr := range nonPhis {
			if visitInstr(fr, instr) == kReturn {
				return
			}
		}
	}
}

func zeroResult(fn *ssa.Function) value {
	res := fn.Signature.Results()
	switch res.Len() {
	case 0:
		return nil
	case 1:
		return zero(res.At(0).Type())
	}
	return zero(res)
}

func executePhis(fr *frame) []ssa.Instruction {
	firstNonPhi := -1
	for i, instr := range fr.block.Instrs {
		if _, ok := instr.(*ssa.Phi); !ok {
			firstNonPhi = i
			break
		}
	}
	nonPhis := fr.block.Instrs[firstNonPhi:]
	if firstNonPhi > 0 {
		phis := fr.block.Instrs[:firstNonPhi]
		predIndex := slices.Index(fr.block.Preds, fr.prevBlock)
		fr.phitemps = fr.phitemps[:0]
		for _, phi := range phis {
			phi := phi.(*ssa.Phi)
			fr.phitemps = append(fr.phitemps, fr.get(phi.Edges[predIndex]))
		}
		for i, phi := range phis {
			fr.env[phi.(*ssa.Phi)] = fr.phitemps[i]
		}
	}
	return nonPhis
}

// doRecover implements the recover() built-in.
func doRecover(caller *frame) value {
	if caller != nil && !caller.panicking &&
		caller.caller != nil && caller.caller.panicking {
		p := caller.caller.panic
		if isEngineAbort(p) {
			panic(p)
		}
		caller.caller.panicking = false
		caller.caller.panic = nil
		switch p := p.(type) {
		case targetPanic:
			return p.v
		default:
			panic(unsupported{fmt.Sprintf("unexpected panic type %T in target call to recover(): %v", p, p)})
		}
	}
	return iface{}
}

// binop dispatches to the symbolic or concrete implementation and models the
// integer-division panic.
func (i *interpreter) binop(op token.Token, t types.Type, x, y value) value {
	if hasSym(x) || hasSym(y) {
		return i.symBinop(op, t, x, y)
	}
	switch op {
	case token.EQL, token.NEQ:
		if deepSym(x) || deepSym(y) {
			r := symEquals(t, x, y)
			if op == token.NEQ {
				r = smtNot(r)
			}
			return mkBool(r)
		}
		if _, ok := x.(rvalue); ok {
			r := x.(rvalue).eq(y.(rvalue))
			if op == token.NEQ {
				r = !r
			}
			return r
		}
	case token.QUO, token.REM:
		switch y := y.(type) {
		case int, int8, int16, int32, int64, uint, uint8, uint16, uint32, uint64, uintptr:
			if asInt64(y) == 0 {
				panic(runtimePanic("integer divide by zero"))
			}
		}
	}
	return binop(op, t, x, y)
}

func describeFrames(fr *frame) string {
	var b strings.Builder
	for f := fr; f != nil; f = f.caller {
		fmt.Fprintf(&b, "  %s%s\n", f.fn, loc(f.fn.Prog.Fset, f.callpos))
	}
	return b.String()
}
