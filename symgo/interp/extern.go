package interp

// Intercepted environment: every stub here is part of the claim.

import (
	"sort"
	"errors"
	"fmt"
	"go/token"
	"go/types"
	"reflect"
	"strconv"
	"strings"

	"golang.org/x/tools/go/ssa"

	"symgo/smt"
)

type externalFn func(fr *frame, args []value) value

func funcPkgPath(fn *ssa.Function) string {
	if fn.Pkg != nil {
		return fn.Pkg.Pkg.Path()
	}
	if fn.Parent() != nil {
		return funcPkgPath(fn.Parent())
	}
	if recv := fn.Signature.Recv(); recv != nil {
		t := recv.Type()
		if p, ok := t.(*types.Pointer); ok {
			t = p.Elem()
		}
		if n, ok := t.(*types.Named); ok && n.Obj().Pkg() != nil {
			return n.Obj().Pkg().Path()
		}
	}
	if fn.Object() != nil && fn.Object().Pkg() != nil {
		return fn.Object().Pkg().Path()
	}
	return ""
}

func isAntlrPkg(p string) bool {
	return strings.HasPrefix(p, "github.com/antlr/") || strings.HasSuffix(p, "/internal/iantlr/alr")
}

func interpretable(p string) bool {
	switch {
	case isAntlrPkg(p):
		return false
	case strings.HasPrefix(p, "github.com/bilibili/gengine"),
		strings.HasPrefix(p, "github.com/golang-collections/"),
		p == "errors", p == "internal/reflectlite":
		return true
	}
	return false
}

var nativeFuncs = map[string]interface{}{
	"strings.Contains":    strings.Contains,
	"strings.HasPrefix":   strings.HasPrefix,
	"strings.HasSuffix":   strings.HasSuffix,
	"strings.Split":       strings.Split,
	"strings.ReplaceAll":  strings.ReplaceAll,
	"strings.Replace":     strings.Replace,
	"strings.TrimSpace":   strings.TrimSpace,
	"strings.Trim":        strings.Trim,
	"strings.ToLower":     strings.ToLower,
	"strings.ToUpper":     strings.ToUpper,
	"strings.Index":       strings.Index,
	"strings.Join":        strings.Join,
	"strings.Repeat":      strings.Repeat,
	"strings.Count":       strings.Count,
	"strings.EqualFold":   strings.EqualFold,
	"strings.Fields":      strings.Fields,
	"strings.TrimPrefix":  strings.TrimPrefix,
	"strings.TrimSuffix":  strings.TrimSuffix,
	"strings.TrimLeft":    strings.TrimLeft,
	"strings.TrimRight":   strings.TrimRight,
	"strings.SplitN":      strings.SplitN,
	"strings.LastIndex":   strings.LastIndex,
	"strings.ContainsAny": strings.ContainsAny,
	"strings.IndexByte":   strings.IndexByte,
	"strings.Title":       strings.Title,
	"strings.Compare":     strings.Compare,
	"strconv.FormatBool":  strconv.FormatBool,
	"strconv.FormatFloat": strconv.FormatFloat,
	"strconv.Itoa":        strconv.Itoa,
	"strconv.FormatInt":   strconv.FormatInt,
	"strconv.FormatUint":  strconv.FormatUint,
	"strconv.Quote":       strconv.Quote,
}

func (i *interpreter) stub(name string) { i.stubs[name]++ }

// textBuf is the content of a strings.Builder / bytes.Buffer identified by its address.
func (i *interpreter) textBuf(p *value) *[]byte {
	if i.bufs == nil {
		i.bufs = map[*value]*[]byte{}
	}
	b, ok := i.bufs[p]
	if !ok {
		b = new([]byte)
		i.bufs[p] = b
	}
	return b
}

func (i *interpreter) lookupExternal(fn *ssa.Function) (externalFn, bool) {
	if e, ok := i.extCache[fn]; ok {
		return e, e != nil
	}
	e := i.resolveExternal(fn)
	i.extCache[fn] = e
	return e, e != nil
}

func (i *interpreter) resolveExternal(fn *ssa.Function) externalFn {
	name := fn.String()
	pkg := funcPkgPath(fn)
	if fn.Synthetic == "package initializer" {
		if i.wantInit(fn.Pkg) {
			return nil
		}
		return func(fr *frame, a []value) value { return nil }
	}
	if strings.Contains(pkg, "zz_verif/vnd") {
		if e := i.vndExternal(fn.Name()); e != nil {
			return e
		}
		return nil // helper written in Go inside vnd: interpret it
	}
	if strings.Contains(pkg, "zz_verif") {
		return nil
	}
	if pkg == "reflect" {
		if i.reflectTable == nil {
			i.reflectTable = i.reflectExternals()
		}
		if e, ok := i.reflectTable[name]; ok {
			return func(fr *frame, a []value) value { fr.i.stub("reflect model"); return e(fr, a) }
		}
		return func(fr *frame, a []value) value { panic(unsupported{"reflect entry point " + name}) }
	}
	if isAntlrPkg(pkg) {
		return i.bridgeExternal(fn, name)
	}
	switch name {
	case "(*sync.Mutex).Lock", "(*sync.RWMutex).Lock":
		return func(fr *frame, a []value) value { fr.i.mutexLock(fr, fr.nilCheck(a[0].(*value))); return nil }
	case "(*sync.Mutex).Unlock", "(*sync.RWMutex).Unlock":
		return func(fr *frame, a []value) value { fr.i.mutexUnlock(fr, fr.nilCheck(a[0].(*value))); return nil }
	case "(*sync.Mutex).TryLock", "(*sync.RWMutex).TryLock":
		return func(fr *frame, a []value) value {
			i := fr.i
			m := i.mutexOf(fr.nilCheck(a[0].(*value)), fr)
			if m.holder != nil {
				return false
			}
			m.holder = fr.th
			fr.th.held = append(fr.th.held, m.id)
			i.logEvent(fr.th, "lock", m.id, 0, m.name, fr)
			return true
		}
	case "(*sync.RWMutex).RLock":
		// read locks are modelled as exclusive: sound for "no rule starts before ..." style
		// orders, and it only hides races between two readers, which are not races
		return func(fr *frame, a []value) value { fr.i.mutexLock(fr, fr.nilCheck(a[0].(*value))); return nil }
	case "(*sync.RWMutex).RUnlock":
		return func(fr *frame, a []value) value { fr.i.mutexUnlock(fr, fr.nilCheck(a[0].(*value))); return nil }
	case "sync/atomic.AddInt32", "sync/atomic.AddInt64", "sync/atomic.AddUint32", "sync/atomic.AddUint64":
		return func(fr *frame, a []value) value {
			p := fr.nilCheck(a[0].(*value))
			fr.i.atomicEvent(fr, p, true)
			*p = fr.i.binop(token.ADD, fn.Signature.Params().At(1).Type(), *p, a[1])
			return *p
		}
	case "sync/atomic.LoadInt32", "sync/atomic.LoadInt64", "sync/atomic.LoadUint32", "sync/atomic.LoadUint64":
		return func(fr *frame, a []value) value {
			p := fr.nilCheck(a[0].(*value))
			fr.i.atomicEvent(fr, p, false)
			return *p
		}
	case "sync/atomic.StoreInt32", "sync/atomic.StoreInt64", "sync/atomic.StoreUint32", "sync/atomic.StoreUint64":
		return func(fr *frame, a []value) value {
			p := fr.nilCheck(a[0].(*value))
			fr.i.atomicEvent(fr, p, true)
			*p = a[1]
			return nil
		}
	case "sync/atomic.CompareAndSwapInt32", "sync/atomic.CompareAndSwapInt64", "sync/atomic.CompareAndSwapUint32", "sync/atomic.CompareAndSwapUint64":
		return func(fr *frame, a []value) value {
			p := fr.nilCheck(a[0].(*value))
			fr.i.atomicEvent(fr, p, true)
			eq := fr.i.binop(token.EQL, fn.Signature.Params().At(1).Type(), *p, a[1])
			var same bool
			if s, ok := eq.(sym); ok {
				same = fr.i.branch(s.T)
			} else {
				same = eq.(bool)
			}
			if same {
				*p = a[2]
			}
			return same
		}
	case "(*strings.Builder).WriteString", "(*bytes.Buffer).WriteString":
		return func(fr *frame, a []value) value {
			s, ok := a[1].(string)
			if !ok {
				panic(unsupported{"symbolic string written to a builder"})
			}
			b := fr.i.textBuf(fr.nilCheck(a[0].(*value)))
			*b = append(*b, s...)
			return tuple{len(s), iface{}}
		}
	case "(*strings.Builder).WriteByte", "(*bytes.Buffer).WriteByte":
		return func(fr *frame, a []value) value {
			b := fr.i.textBuf(fr.nilCheck(a[0].(*value)))
			*b = append(*b, a[1].(byte))
			return iface{}
		}
	case "(*strings.Builder).WriteRune", "(*bytes.Buffer).WriteRune":
		return func(fr *frame, a []value) value {
			b := fr.i.textBuf(fr.nilCheck(a[0].(*value)))
			s := string(a[1].(rune))
			*b = append(*b, s...)
			return tuple{len(s), iface{}}
		}
	case "(*strings.Builder).String", "(*bytes.Buffer).String":
		return func(fr *frame, a []value) value {
			p, _ := a[0].(*value)
			if p == nil {
				return "<nil>"
			}
			return string(*fr.i.textBuf(p))
		}
	case "(*strings.Builder).Len", "(*bytes.Buffer).Len":
		return func(fr *frame, a []value) value { return len(*fr.i.textBuf(fr.nilCheck(a[0].(*value)))) }
	case "(*strings.Builder).Reset", "(*bytes.Buffer).Reset":
		return func(fr *frame, a []value) value { *fr.i.textBuf(fr.nilCheck(a[0].(*value))) = nil; return nil }
	case "fmt.Fprintf", "fmt.Fprint", "fmt.Fprintln":
		return func(fr *frame, a []value) value {
			w := a[0].(iface)
			p, ok := w.v.(*value)
			if !ok || w.t == nil || !(strings.Contains(w.t.String(), "strings.Builder") || strings.Contains(w.t.String(), "bytes.Buffer")) {
				fr.i.stub("fmt.Fprint* to a non-buffer writer: no-op")
				return tuple{0, iface{}}
			}
			var s string
			switch name {
			case "fmt.Fprintf":
				v := fr.i.sprintf(fr, a[1], a[2].([]value))
				s, _ = v.(string)
			case "fmt.Fprint":
				s = fmt.Sprint(fr.i.nativeArgs(fr, a[1].([]value))...)
			default:
				s = fmt.Sprintln(fr.i.nativeArgs(fr, a[1].([]value))...)
			}
			b := fr.i.textBuf(p)
			*b = append(*b, s...)
			return tuple{len(s), iface{}}
		}
	case "time.Sleep":
		return func(fr *frame, a []value) value { fr.i.stub("time.Sleep no-op"); return nil }
	case "runtime.Gosched":
		return func(fr *frame, a []value) value { return nil }
	case "(*sync.Pool).Get":
		// one legal behaviour of sync.Pool: last put first, New when empty
		return func(fr *frame, a []value) value {
			i := fr.i
			p := fr.nilCheck(a[0].(*value))
			ps := i.syncPool(p)
			i.stub("sync.Pool as a LIFO free list")
			if n := len(ps.items); n > 0 {
				v := ps.items[n-1]
				ps.items = ps.items[:n-1]
				return v
			}
			st := fn.Signature.Recv().Type().(*types.Pointer).Elem().Underlying().(*types.Struct)
			nf := (*p).(structure)[fieldIndex(st, "New")]
			switch f := nf.(type) {
			case *ssa.Function:
				if f == nil {
					return iface{}
				}
			case nil:
				return iface{}
			}
			return call(i, fr, 0, nf, nil)
		}
	case "(*sync.Map).Load", "(*sync.Map).Store", "(*sync.Map).LoadOrStore", "(*sync.Map).Delete", "(*sync.Map).LoadAndDelete":
		// sync.Map as a map guarded by a lock of its own (each operation is atomic)
		op := name[len("(*sync.Map)."):]
		return func(fr *frame, a []value) value {
			i := fr.i
			p := fr.nilCheck(a[0].(*value))
			if i.syncMaps == nil {
				i.syncMaps = map[*value]*omap{}
			}
			m, ok := i.syncMaps[p]
			if !ok {
				m = makeMap(types.NewInterfaceType(nil, nil), 0).(*omap)
				i.syncMaps[p] = m
			}
			i.stub("sync.Map as a lock-guarded map")
			switch op {
			case "Load":
				v, has := m.lookup(a[1])
				if !has {
					return tuple{iface{}, false}
				}
				return tuple{v, true}
			case "Store":
				m.insert(a[1], a[2])
				return nil
			case "LoadOrStore":
				if v, has := m.lookup(a[1]); has {
					return tuple{v, true}
				}
				m.insert(a[1], a[2])
				return tuple{a[2], false}
			case "Delete":
				m.delete(a[1])
				return nil
			default:
				v, has := m.lookup(a[1])
				if !has {
					return tuple{iface{}, false}
				}
				m.delete(a[1])
				return tuple{v, true}
			}
		}
	case "(*sync.Pool).Put":
		return func(fr *frame, a []value) value {
			ps := fr.i.syncPool(fr.nilCheck(a[0].(*value)))
			ps.items = append(ps.items, a[1])
			return nil
		}
	case "(*sync.Once).Do":
		return func(fr *frame, a []value) value {
			fr.i.onceDo(fr, fr.nilCheck(a[0].(*value)), a[1])
			return nil
		}
	case "(*sync.WaitGroup).Add":
		return func(fr *frame, a []value) value {
			fr.i.wgAdd(fr, fr.nilCheck(a[0].(*value)), int(asInt64(a[1])))
			return nil
		}
	case "(*sync.WaitGroup).Done":
		return func(fr *frame, a []value) value { fr.i.wgAdd(fr, fr.nilCheck(a[0].(*value)), -1); return nil }
	case "(*sync.WaitGroup).Wait":
		return func(fr *frame, a []value) value { fr.i.wgWait(fr, fr.nilCheck(a[0].(*value))); return nil }
	case "fmt.Sprintf":
		return func(fr *frame, a []value) value { return fr.i.sprintf(fr, a[0], a[1].([]value)) }
	case "fmt.Errorf":
		return func(fr *frame, a []value) value {
			s := fr.i.sprintf(fr, a[0], a[1].([]value))
			return fr.i.makeError(fr, s)
		}
	case "fmt.Sprint":
		return func(fr *frame, a []value) value {
			fr.i.stub("fmt native")
			return fmt.Sprint(fr.i.nativeArgs(fr, a[0].([]value))...)
		}
	case "fmt.Sprintln":
		return func(fr *frame, a []value) value {
			fr.i.stub("fmt native")
			return fmt.Sprintln(fr.i.nativeArgs(fr, a[0].([]value))...)
		}
	case "fmt.Println", "fmt.Printf", "fmt.Print":
		return func(fr *frame, a []value) value {
			fr.i.stub("fmt.Print* no-op")
			return tuple{0, iface{}}
		}
	case "runtime.Stack":
		return func(fr *frame, a []value) value { fr.i.stub("runtime.Stack=0"); return 0 }
	case "time.Now":
		return func(fr *frame, a []value) value { return structure{uint64(0), fr.i.clockTick(), (*value)(nil)} }
	case "time.After":
		// the timer may fire at any moment: the channel is ready at once, so a select explores the timeout
		// branch next to every other ready case (and a plain receive does not wait)
		return func(fr *frame, a []value) value {
			i := fr.i
			i.stub("time.After = a channel that may deliver at any moment")
			i.nextChanID++
			ch := &chanv{id: i.nextChanID, cap: 1, elemT: fn.Signature.Results().At(0).Type().Underlying().(*types.Chan).Elem()}
			e := i.logEvent(fr.th, "chsend", ch.id, 0, "", fr)
			ch.buf = append(ch.buf, structure{uint64(0), i.clockTick(), (*value)(nil)})
			ch.bufEv = append(ch.bufEv, e)
			return ch
		}
	case "time.Since":
		return func(fr *frame, a []value) value {
			now := fr.i.clockTick()
			return fr.i.binop(token.SUB, types.Typ[types.Int64], now, a[0].(structure)[1])
		}
	case "(time.Time).Sub":
		return func(fr *frame, a []value) value {
			return fr.i.binop(token.SUB, types.Typ[types.Int64], a[0].(structure)[1], a[1].(structure)[1])
		}
	case "sort.SliceStable":
		return func(fr *frame, a []value) value { fr.i.sliceStable(fr, a[0], a[1]); return nil }
	case "sort.Search":
		// the real binary search with the interpreted predicate (a symbolic outcome forks)
		return func(fr *frame, a []value) value {
			i := fr.i
			i.stub("sort.Search = the real sort.Search driven by the interpreted predicate")
			return sort.Search(int(asInt64(a[0])), func(k int) bool {
				r := call(i, fr, 0, a[1], []value{k})
				if rs, ok := r.(sym); ok {
					return i.branch(rs.T)
				}
				return r.(bool)
			})
		}
	case "sort.Slice":
		return func(fr *frame, a []value) value { fr.i.sliceUnstable(fr, a[0], a[1]); return nil }
	case "strconv.Atoi":
		return func(fr *frame, a []value) value {
			s, ok := a[0].(string)
			if !ok {
				panic(unsupported{"symbolic argument to strconv.Atoi"})
			}
			v, err := strconv.Atoi(s)
			if err != nil {
				return tuple{v, fr.i.makeError(fr, err.Error())}
			}
			return tuple{v, iface{}}
		}
	case "strconv.ParseInt":
		return func(fr *frame, a []value) value {
			v, err := strconv.ParseInt(a[0].(string), int(asInt64(a[1])), int(asInt64(a[2])))
			if err != nil {
				return tuple{v, fr.i.makeError(fr, err.Error())}
			}
			return tuple{v, iface{}}
		}
	}
	if strings.HasPrefix(pkg, "github.com/google/martian") {
		return func(fr *frame, a []value) value { fr.i.stub("martian/log no-op"); return nil }
	}
	if nf, ok := nativeFuncs[name]; ok {
		return func(fr *frame, a []value) value { return fr.i.callNative(name, nf, a) }
	}
	if interpretable(pkg) {
		return nil
	}
	return func(fr *frame, a []value) value {
		panic(unsupported{"call into un-modelled function " + name})
	}
}

// callNative runs a pure library function on concrete basic arguments.
func (i *interpreter) callNative(name string, nf interface{}, args []value) value {
	i.stub("native " + name)
	fv := reflect.ValueOf(nf)
	ft := fv.Type()
	in := make([]reflect.Value, len(args))
	for k, a := range args {
		if deepSym(a) {
			panic(unsupported{"symbolic argument to " + name})
		}
		pt := ft.In(k)
		switch pt.Kind() {
		case reflect.Slice:
			sl := a.([]value)
			out := reflect.MakeSlice(pt, len(sl), len(sl))
			for j := range sl {
				out.Index(j).Set(reflect.ValueOf(sl[j]).Convert(pt.Elem()))
			}
			in[k] = out
		default:
			in[k] = reflect.ValueOf(a).Convert(pt)
		}
	}
	res := fv.Call(in)
	conv1 := func(r reflect.Value) value {
		switch r.Kind() {
		case reflect.Slice:
			out := make([]value, r.Len())
			for j := range out {
				out[j] = r.Index(j).Interface()
			}
			return out
		}
		return r.Interface()
	}
	switch len(res) {
	case 0:
		return nil
	case 1:
		return conv1(res[0])
	}
	tup := make(tuple, len(res))
	for k := range res {
		tup[k] = conv1(res[k])
	}
	return tup
}

// makeError builds an interpreted error value with the given text by calling
// the interpreted errors.New.
func (i *interpreter) makeError(fr *frame, text value) value {
	pkg := i.prog.ImportedPackage("errors")
	if pkg == nil {
		panic(unsupported{"package errors not loaded"})
	}
	return callSSA(i, fr, 0, pkg.Func("New"), []value{text}, nil)
}

const symPlaceholder = "⟦sym⟧"

// outcomeGoodText is the rule text that stands for "whatever the user sent"
// when the harness chooses the front end's outcome itself (C10).
const outcomeGoodText = "rule \"b\" \"nb\" salience 7\nbegin\n ver(\"b\", 2)\nend\nrule \"x\" \"nx\" salience 3\nbegin\n ver(\"x\", 2)\nend\n"

// toNative converts an interpreter value into a Go value that fmt prints the
// way the target program would (errors and Stringers through their methods).
func (i *interpreter) toNative(v value) interface{} {
	switch v := v.(type) {
	case iface:
		if v.t == nil {
			return nil
		}
		if rv, ok := v.v.(rvalue); ok {
			// fmt prints the value a reflect.Value holds, structurally, without calling its methods at the top level
			return i.toNativeTyped(v.t, rv)
		}
		if s, ok := i.callStringMethod(v, "Error"); ok {
			return errors.New(s)
		}
		if s, ok := i.callStringMethod(v, "String"); ok {
			return stringer(s)
		}
		return i.toNativeTyped(v.t, v.v)
	}
	return i.toNativeTyped(nil, v)
}

type stringer string

func (s stringer) String() string { return string(s) }

func (i *interpreter) toNativeTyped(t types.Type, v value) interface{} {
	// fmt follows maps, slices and interface values without a visited set: a value that contains itself makes the
	// real fmt recurse until the goroutine stack is exhausted, which ends the process
	i.fmtDepth++
	defer func() { i.fmtDepth-- }()
	if i.fmtDepth > 200 {
		panic(engineAbort{kind: "crash", msg: "fatal error: stack overflow (fmt formatting a value that contains itself)"})
	}
	switch v := v.(type) {
	case sym:
		i.stub("fmt: symbolic value printed as placeholder")
		return stringer(symPlaceholder)
	case bool, int, int8, int16, int32, int64, uint, uint8, uint16, uint32, uint64, uintptr, float32, float64, complex64, complex128, string:
		return v
	case []value:
		if t != nil {
			if st, ok := t.Underlying().(*types.Slice); ok {
				if b, ok := st.Elem().Underlying().(*types.Basic); ok && b.Kind() == types.String {
					out := make([]string, len(v))
					for k := range v {
						if s, ok := v[k].(string); ok {
							out[k] = s
						} else {
							out[k] = symPlaceholder
						}
					}
					return out
				}
				out := make([]interface{}, len(v))
				for k := range v {
					if isIface(st.Elem()) {
						out[k] = i.toNative(v[k])
					} else {
						out[k] = i.toNativeTyped(st.Elem(), v[k])
					}
				}
				return out
			}
		}
		out := make([]interface{}, len(v))
		for k := range v {
			out[k] = i.toNative(v[k])
		}
		return out
	case iface:
		return i.toNative(v)
	case *value:
		if v == nil {
			return nil
		}
		return stringer(fmt.Sprintf("0x%x", 0xc000000000))
	case rvalue:
		if !v.valid() {
			return stringer("<invalid reflect.Value>")
		}
		return i.toNativeTyped(v.t, v.get())
	case *omap:
		out := map[string]interface{}{}
		if v != nil {
			for k := range v.keys {
				if v.live[k] {
					out[fmt.Sprint(i.toNative(v.keys[k]))] = i.toNative(v.vals[k])
				}
			}
		}
		return out
	case structure:
		return stringer("{struct}")
	case nil:
		return nil
	}
	return stringer(fmt.Sprintf("<%T>", v))
}

// callStringMethod calls a niladic string method of the dynamic type, if any.
func (i *interpreter) callStringMethod(v iface, name string) (string, bool) {
	if _, isBasic := v.t.(*types.Basic); isBasic {
		return "", false
	}
	if _, ok := v.v.(rtype); ok {
		return "", false
	}
	mset := i.prog.MethodSets.MethodSet(v.t)
	sel := mset.Lookup(nil, name)
	if sel == nil {
		return "", false
	}
	sig := sel.Type().(*types.Signature)
	if sig.Params().Len() != 0 || sig.Results().Len() != 1 {
		return "", false
	}
	if b, ok := sig.Results().At(0).Type().Underlying().(*types.Basic); !ok || b.Kind() != types.String {
		return "", false
	}
	fn := i.prog.MethodValue(sel)
	if fn == nil {
		return "", false
	}
	if p, ok := v.v.(*value); ok && p == nil {
		return "<nil>", true
	}
	res := callSSA(i, nil, 0, fn, []value{v.v}, nil)
	if s, ok := res.(string); ok {
		return s, true
	}
	return symPlaceholder, true
}

func (i *interpreter) nativeArgs(fr *frame, args []value) []interface{} {
	out := make([]interface{}, len(args))
	for k, a := range args {
		out[k] = i.toNative(a)
	}
	return out
}

func (i *interpreter) sprintf(fr *frame, format value, args []value) value {
	f, ok := format.(string)
	if !ok {
		// a symbolic format without verbs formats to itself
		fs := format.(sym)
		if len(args) == 0 && !i.branch(&smt.Term{Sort: smt.Bool, S: "(str.contains " + fs.T.S + " \"%\")"}) {
			i.stub("fmt.Sprintf(symbolic format without verbs) = the format")
			return fs
		}
		panic(unsupported{"symbolic format string containing %"})
	}
	if f == "%s%s" && len(args) == 2 {
		a, aok := args[0].(iface)
		b, bok := args[1].(iface)
		if aok && bok && (hasSym(a.v) || hasSym(b.v)) {
			i.stub("fmt.Sprintf(%s%s) as str.++")
			return fromTerm(smt.StrConcat(toTerm(a.v), toTerm(b.v)), types.String)
		}
	}
	i.stub("fmt native")
	return fmt.Sprintf(f, i.nativeArgs(fr, args)...)
}

// sliceStable is a stable insertion sort driven by the interpreted less.
func (i *interpreter) sliceStable(fr *frame, x value, less value) {
	i.stub("sort.SliceStable as stable insertion sort")
	s := x.(iface).v.([]value)
	for a := 1; a < len(s); a++ {
		for b := a; b > 0; b-- {
			r := call(i, fr, 0, less, []value{b, b - 1})
			var lt bool
			if rs, ok := r.(sym); ok {
				lt = i.branch(rs.T)
			} else {
				lt = r.(bool)
			}
			if !lt {
				break
			}
			s[b], s[b-1] = s[b-1], s[b]
		}
	}
}

// clockTick is the clock stub: every reading is an arbitrary instant (nanoseconds, in the ext field of the
// time.Time it is wrapped in) not earlier than the previous one.
func (i *interpreter) clockTick() value {
	i.stub("time.Now / time.Since = arbitrary non-decreasing instants")
	c := i.newSymbol("clock", types.Int64)
	lo := smt.BVConst(64, 0)
	if i.lastClock != nil {
		lo = i.lastClock
	}
	i.assertPC(smt.And(smt.BVCmp("bvsle", lo, c.T), smt.BVCmp("bvsle", c.T, smt.BVConst(64, 1<<61))))
	i.lastClock = c.T
	return c
}

// sliceUnstable runs the real sort.Slice (Go's pdqsort, not stable above 12 elements) over the
// interpreter's own backing array, calling the interpreted less; a symbolic outcome of less forks.
func (i *interpreter) sliceUnstable(fr *frame, x value, less value) {
	i.stub("sort.Slice = the real sort.Slice driven by the interpreted less")
	s := x.(iface).v.([]value)
	sort.Slice(s, func(a, b int) bool {
		r := call(i, fr, 0, less, []value{a, b})
		if rs, ok := r.(sym); ok {
			return i.branch(rs.T)
		}
		return r.(bool)
	})
}

// ---- map iteration order -----------------------------------------------------

func permutations(n int) [][]int {
	if n == 0 {
		return [][]int{{}}
	}
	var out [][]int
	for _, p := range permutations(n - 1) {
		for pos := 0; pos <= len(p); pos++ {
			q := append(append(append([]int{}, p[:pos]...), n-1), p[pos:]...)
			out = append(out, q)
		}
	}
	return out
}

// mapOrder returns the iteration order (entry indices) to use for m.
func (i *interpreter) mapOrder(m *omap) []int {
	base := m.order()
	n := len(base)
	if !i.exploreMO || n < 2 {
		return base
	}
	// only the iteration order of rule-entity maps is explored: it is the one
	// gengine's behaviour depends on (tie-breaks of the stable sort, merge order)
	if m.elemT == nil || !strings.Contains(m.elemT.String(), "RuleEntity") {
		return base
	}
	var cands [][]int
	if n <= 3 {
		cands = permutations(n)
		// put identity first
		for k, p := range cands {
			id := true
			for j := range p {
				if p[j] != j {
					id = false
				}
			}
			if id {
				cands[0], cands[k] = cands[k], cands[0]
				break
			}
		}
	} else {
		id := make([]int, n)
		rev := make([]int, n)
		for j := range id {
			id[j] = j
			rev[j] = n - 1 - j
		}
		cands = append(cands, id, rev)
		for r := 1; r < n; r++ {
			rot := make([]int, n)
			for j := range rot {
				rot[j] = (j + r) % n
			}
			cands = append(cands, rot)
		}
	}
	k := i.chooseN(len(cands))
	i.res.MapForks++
	out := make([]int, n)
	for j, p := range cands[k] {
		out[j] = base[p]
	}
	return out
}

func (i *interpreter) rangeIter(fr *frame, instr *ssa.Range, x value, t types.Type) iter {
	if m, ok := x.(*omap); ok {
		if m == nil {
			return (&omap{}).iter(nil)
		}
		i.onMapAccess(fr, instr, m, false)
		return m.iter(i.mapOrder(m))
	}
	if _, ok := x.(sym); ok {
		panic(unsupported{"range over symbolic string"})
	}
	return rangeIter(x, t)
}

// ---- vnd: harness support ------------------------------------------------------

func (i *interpreter) vndExternal(name string) externalFn {
	symOf := func(k types.BasicKind) externalFn {
		return func(fr *frame, a []value) value { return fr.i.newSymbol(a[0].(string), k) }
	}
	switch name {
	case "Int64":
		return symOf(types.Int64)
	case "Int32":
		return symOf(types.Int32)
	case "Int16":
		return symOf(types.Int16)
	case "Int8":
		return symOf(types.Int8)
	case "Int":
		return symOf(types.Int)
	case "Uint64":
		return symOf(types.Uint64)
	case "Uint32":
		return symOf(types.Uint32)
	case "Uint16":
		return symOf(types.Uint16)
	case "Uint8":
		return symOf(types.Uint8)
	case "Uint":
		return symOf(types.Uint)
	case "Float64":
		return symOf(types.Float64)
	case "Float32":
		return symOf(types.Float32)
	case "Bool":
		return symOf(types.Bool)
	case "String":
		return func(fr *frame, a []value) value {
			s := fr.i.newSymbol(a[0].(string), types.String)
			// printable ASCII, at most 4 bytes (stated bound)
			fr.i.assertPC(&smt.Term{Sort: smt.Bool, S: fmt.Sprintf("(and (<= (str.len %s) 4) (str.in_re %s (re.* (re.range \" \" \"~\"))))", s.T.S, s.T.S)})
			return s
		}
	case "Choice":
		return func(fr *frame, a []value) value {
			i := fr.i
			k := i.chooseN(int(asInt64(a[1])))
			name := "choice:" + a[0].(string)
			if n, ok := i.symNames[name]; ok {
				i.symNames[name] = n + 1
				name = fmt.Sprintf("%s#%d", name, n+1)
			} else {
				i.symNames[name] = 0
			}
			i.choices[name] = strconv.Itoa(k)
			return k
		}
	case "Assume":
		return func(fr *frame, a []value) value {
			i := fr.i
			switch c := a[0].(type) {
			case bool:
				if !c {
					panic(engineAbort{kind: "infeasible", msg: "assume(false)"})
				}
			case sym:
				i.res.Assumes = append(i.res.Assumes, c.T.S)
				if !i.feasible(c.T) {
					panic(engineAbort{kind: "infeasible", msg: "assumption unsatisfiable"})
				}
				i.assertPC(c.T)
			}
			return nil
		}
	case "Assert":
		return func(fr *frame, a []value) value {
			i := fr.i
			label := a[1].(string)
			switch c := a[0].(type) {
			case bool:
				if !c {
					i.violate("assert", label, "assert|"+label, "assertion is false on this path", nil)
					panic(engineAbort{kind: "violation", msg: label})
				}
			case sym:
				if c.T.Taint {
					panic(unsupported{"assertion on a tainted value: " + label})
				}
				neg := smt.Not(c.T)
				r := i.solver.CheckWith(neg)
				i.res.Queries++
				switch r {
				case smt.Sat:
					i.violate("assert", label, "assert|"+label, "assertion can be false", neg)
					panic(engineAbort{kind: "violation", msg: label})
				case smt.Unknown:
					i.unknown++
					i.res.Unknowns++
					panic(unsupported{"solver answered unknown for assertion " + label + ": " + i.solver.LastError})
				}
				i.assertPC(c.T)
			}
			return nil
		}
	case "Reach":
		return func(fr *frame, a []value) value {
			fr.i.res.Reached = append(fr.i.res.Reached, a[0].(string))
			return nil
		}
	case "Event":
		return func(fr *frame, a []value) value {
			i := fr.i
			n := a[0].(string)
			i.logEvent(fr.th, "mark", 0, 0, n, fr)
			i.counts[n]++
			i.trace = append(i.trace, n)
			return nil
		}
	case "Count":
		return func(fr *frame, a []value) value { return fr.i.counts[a[0].(string)] }
	case "Trace":
		return func(fr *frame, a []value) value {
			out := make([]value, len(fr.i.trace))
			for k, s := range fr.i.trace {
				out[k] = s
			}
			return out
		}
	case "Quiesce":
		return func(fr *frame, a []value) value { fr.i.quiesce(fr.th); return nil }
	case "Blocked":
		return func(fr *frame, a []value) value { return fr.i.blockedThreads() }
	case "RequireOrder":
		return func(fr *frame, a []value) value { fr.i.requireOrder(a[0].(string), a[1].(string)); return nil }
	case "RequireJoined":
		return func(fr *frame, a []value) value { fr.i.requireJoined(a[0].(string)); return nil }
	case "NoRaces":
		return func(fr *frame, a []value) value { fr.i.noRaces(a[0].(string)); return nil }
	case "OutcomeText":
		return func(fr *frame, a []value) value {
			i := fr.i
			i.bridge.forced = []value{a[0], a[1], a[2]}
			i.stub("parser outcome chosen by the harness (nondeterministic front end)")
			return outcomeGoodText
		}
	case "Nap":
		return func(fr *frame, a []value) value { return nil }
	case "WaitFor":
		return func(fr *frame, a []value) value { return nil }
	case "StopIfViolated":
		return func(fr *frame, a []value) value {
			if len(fr.i.res.Violations) > 0 {
				panic(engineAbort{kind: "violation", msg: "schedule query failed"})
			}
			return nil
		}
	case "SalText":
		return func(fr *frame, a []value) value {
			i := fr.i
			mark := int64(7000001 + len(i.salMarks))
			i.salMarks[mark] = a[0]
			return strconv.FormatInt(mark, 10)
		}
	case "ExploreMapOrder":
		return func(fr *frame, a []value) value { fr.i.exploreMO = a[0].(bool); return nil }
	case "ExpectEnd":
		return func(fr *frame, a []value) value { fr.i.expectEnd = a[0].(string); return nil }
	case "And", "Or", "Implies", "Iff":
		return func(fr *frame, a []value) value {
			x, y := toTerm(a[0]), toTerm(a[1])
			switch name {
			case "And":
				return mkBool(smt.And(x, y))
			case "Or":
				return mkBool(smt.Or(x, y))
			case "Implies":
				return mkBool(smt.Implies(x, y))
			}
			return mkBool(smt.Eq(x, y))
		}
	case "Not":
		return func(fr *frame, a []value) value { return mkBool(smt.Not(toTerm(a[0]))) }
	case "Symbolic":
		return func(fr *frame, a []value) value { return true }
	}
	return nil
}

// noRaces reports every racy pair on tracked locations whose name has the
// given prefix ("" = all).
func (i *interpreter) noRaces(prefix string) {
	for _, rp := range i.findRaces(func(loc string) bool { return strings.HasPrefix(loc, prefix) }) {
		key := fmt.Sprintf("race|%s|%s:%s|%s:%s", locBase(rp.loc), rp.a.kind, shortFn(rp.a.fn), rp.b.kind, shortFn(rp.b.fn))
		v := Violation{Kind: "race", Label: "conflicting accesses adjacent in a consistent schedule", Key: key,
			Detail: fmt.Sprintf("%s: %s in %s (goroutine %d) / %s in %s (goroutine %d)", rp.loc, rp.a.kind, rp.a.fn, rp.a.th, rp.b.kind, rp.b.fn, rp.b.th),
			Model:  rp.model, Path: append([]int{}, i.path...), Trace: rp.order}
		i.res.Violations = append(i.res.Violations, v)
	}
}

func shortFn(s string) string {
	s = strings.ReplaceAll(s, "github.com/bilibili/gengine/", "")
	return s
}
