package interp

import (
	"go/types"
)

// omap is an insertion-ordered map with concrete keys. Iteration order is
// deterministic (insertion order) unless the interpreter explores orders.
type omap struct {
	keyT    types.Type
	builtin bool
	idx     map[value]int
	keys    []value
	vals    []value
	live    []bool
	n       int
	id      int
	loc     *location
	elemT   types.Type
}

func makeMap(kt types.Type, reserve int64) value {
	m := &omap{keyT: kt, builtin: usesBuiltinMap(kt)}
	if m.builtin {
		m.idx = make(map[value]int)
	}
	return m
}

func (m *omap) find(k value) int {
	if hasSym(k) {
		panic(unsupported{"symbolic map key"})
	}
	if m.builtin {
		if i, ok := m.idx[k]; ok {
			return i
		}
		return -1
	}
	for i, kk := range m.keys {
		if m.live[i] && equals(m.keyT, kk, k) {
			return i
		}
	}
	return -1
}

func (m *omap) lookup(k value) (value, bool) {
	if m == nil {
		return nil, false
	}
	if i := m.find(k); i >= 0 {
		return m.vals[i], true
	}
	return nil, false
}

func (m *omap) insert(k, v value) {
	if m == nil {
		panic(runtimePanic("assignment to entry in nil map"))
	}
	if i := m.find(k); i >= 0 {
		m.vals[i] = v
		return
	}
	m.keys = append(m.keys, k)
	m.vals = append(m.vals, v)
	m.live = append(m.live, true)
	if m.builtin {
		m.idx[k] = len(m.keys) - 1
	}
	m.n++
}

func (m *omap) delete(k value) {
	if m == nil {
		return
	}
	if i := m.find(k); i >= 0 {
		m.live[i] = false
		if m.builtin {
			delete(m.idx, k)
		}
		m.n--
	}
}

func (m *omap) len() int {
	if m == nil {
		return 0
	}
	return m.n
}

// order returns the indices of the live entries in insertion order.
func (m *omap) order() []int {
	if m == nil {
		return nil
	}
	var o []int
	for i := range m.keys {
		if m.live[i] {
			o = append(o, i)
		}
	}
	return o
}

type omapIter struct {
	m     *omap
	order []int
	pos   int
}

// iter iterates in the given order of entry indices (nil = insertion order).
func (m *omap) iter(order []int) iter {
	if order == nil {
		order = m.order()
	}
	return &omapIter{m: m, order: order}
}

func (it *omapIter) next() tuple {
	for it.pos < len(it.order) {
		i := it.order[it.pos]
		it.pos++
		if it.m.live[i] {
			return tuple{true, it.m.keys[i], it.m.vals[i]}
		}
	}
	return tuple{false, nil, nil}
}
