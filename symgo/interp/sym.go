package interp

import (
	"fmt"
	"go/token"
	"go/types"
	"math"

	"symgo/smt"
)

// sym is a symbolic scalar: an SMT term together with the Go basic kind it
// stands for (signedness lives in the kind).
type sym struct {
	T *smt.Term
	K types.BasicKind
}

// unsupported aborts the current path as "not modelled"; it is never a pass.
type unsupported struct{ what string }

func (u unsupported) Error() string { return "unsupported: " + u.what }

func hasSym(v value) bool {
	_, ok := v.(sym)
	return ok
}

// deepSym reports whether v contains a symbolic scalar reachable without
// following pointers (interfaces, structs, arrays).
func deepSym(v value) bool {
	switch v := v.(type) {
	case sym:
		return true
	case iface:
		return deepSym(v.v)
	case structure:
		for _, e := range v {
			if deepSym(e) {
				return true
			}
		}
	case array:
		for _, e := range v {
			if deepSym(e) {
				return true
			}
		}
	}
	return false
}

func normKind(k types.BasicKind) types.BasicKind {
	switch k {
	case types.UntypedBool:
		return types.Bool
	case types.UntypedInt:
		return types.Int
	case types.UntypedRune:
		return types.Int32
	case types.UntypedFloat:
		return types.Float64
	case types.UntypedString:
		return types.String
	}
	return k
}

func basicKindOf(t types.Type) (types.BasicKind, bool) {
	if t == nil {
		return 0, false
	}
	b, ok := t.Underlying().(*types.Basic)
	if !ok {
		return 0, false
	}
	return normKind(b.Kind()), true
}

// kindInfo returns (bit width, signed, float) for numeric kinds.
func kindInfo(k types.BasicKind) (w int, signed, float bool) {
	switch k {
	case types.Int, types.Int64:
		return 64, true, false
	case types.Int8:
		return 8, true, false
	case types.Int16:
		return 16, true, false
	case types.Int32:
		return 32, true, false
	case types.Uint, types.Uint64, types.Uintptr:
		return 64, false, false
	case types.Uint8:
		return 8, false, false
	case types.Uint16:
		return 16, false, false
	case types.Uint32:
		return 32, false, false
	case types.Float32:
		return 32, true, true
	case types.Float64:
		return 64, true, true
	}
	return 0, false, false
}

func sortOfKind(k types.BasicKind) smt.Sort {
	switch k {
	case types.Bool:
		return smt.Bool
	case types.String:
		return smt.Str
	case types.Float32:
		return smt.FP32
	case types.Float64:
		return smt.FP64
	}
	w, _, _ := kindInfo(k)
	if w == 0 {
		panic(unsupported{fmt.Sprintf("symbolic value of kind %v", k)})
	}
	return smt.BVSort(w)
}

func dynKind(v value) types.BasicKind {
	switch v := v.(type) {
	case sym:
		return v.K
	case bool:
		return types.Bool
	case int:
		return types.Int
	case int8:
		return types.Int8
	case int16:
		return types.Int16
	case int32:
		return types.Int32
	case int64:
		return types.Int64
	case uint:
		return types.Uint
	case uint8:
		return types.Uint8
	case uint16:
		return types.Uint16
	case uint32:
		return types.Uint32
	case uint64:
		return types.Uint64
	case uintptr:
		return types.Uintptr
	case float32:
		return types.Float32
	case float64:
		return types.Float64
	case string:
		return types.String
	}
	return types.Invalid
}

// toTerm renders a (concrete or symbolic) basic value as a term.
func toTerm(v value) *smt.Term {
	switch v := v.(type) {
	case sym:
		return v.T
	case bool:
		return smt.BoolConst(v)
	case int:
		return smt.BVConst(64, uint64(v))
	case int8:
		return smt.BVConst(8, uint64(v))
	case int16:
		return smt.BVConst(16, uint64(v))
	case int32:
		return smt.BVConst(32, uint64(v))
	case int64:
		return smt.BVConst(64, uint64(v))
	case uint:
		return smt.BVConst(64, uint64(v))
	case uint8:
		return smt.BVConst(8, uint64(v))
	case uint16:
		return smt.BVConst(16, uint64(v))
	case uint32:
		return smt.BVConst(32, uint64(v))
	case uint64:
		return smt.BVConst(64, v)
	case uintptr:
		return smt.BVConst(64, uint64(v))
	case float32:
		return smt.FP32Const(v)
	case float64:
		return smt.FP64Const(v)
	case string:
		return smt.StrConst(v)
	}
	panic(unsupported{fmt.Sprintf("term of %T", v)})
}

// fromTerm gives back a concrete Go value when the term is constant.
func fromTerm(t *smt.Term, k types.BasicKind) value {
	if !t.IsConst {
		return sym{t, k}
	}
	switch k {
	case types.Bool:
		return t.U != 0
	case types.String:
		return t.Str
	case types.Float32:
		return float32(t.F)
	case types.Float64:
		return t.F
	case types.Int:
		return int(t.U)
	case types.Int8:
		return int8(t.U)
	case types.Int16:
		return int16(t.U)
	case types.Int32:
		return int32(t.U)
	case types.Int64:
		return int64(t.U)
	case types.Uint:
		return uint(t.U)
	case types.Uint8:
		return uint8(t.U)
	case types.Uint16:
		return uint16(t.U)
	case types.Uint32:
		return uint32(t.U)
	case types.Uint64:
		return t.U
	case types.Uintptr:
		return uintptr(t.U)
	}
	return sym{t, k}
}

func mkBool(t *smt.Term) value { return fromTerm(t, types.Bool) }

// symBinop evaluates x op y where at least one operand is symbolic.
// Integer division forks on a zero divisor (Go panics there).
func (i *interpreter) symBinop(op token.Token, t types.Type, x, y value) value {
	k := dynKind(x)
	if k == types.Invalid {
		k = dynKind(y)
	}
	if _, xs := x.(sym); !xs {
		// prefer the symbolic operand's kind when x is concrete (same static type)
		if ys, ok := y.(sym); ok && op != token.SHL && op != token.SHR {
			k = ys.K
		}
	}
	a, b := toTerm(x), toTerm(y)
	switch k {
	case types.Bool:
		switch op {
		case token.EQL:
			return mkBool(smt.Eq(a, b))
		case token.NEQ:
			return mkBool(smt.Not(smt.Eq(a, b)))
		case token.AND, token.LAND:
			return mkBool(smt.And(a, b))
		case token.OR, token.LOR:
			return mkBool(smt.Or(a, b))
		}
	case types.String:
		switch op {
		case token.ADD:
			return fromTerm(smt.StrConcat(a, b), types.String)
		case token.EQL:
			return mkBool(smt.Eq(a, b))
		case token.NEQ:
			return mkBool(smt.Not(smt.Eq(a, b)))
		case token.LSS:
			return mkBool(smt.StrLt(a, b))
		case token.LEQ:
			return mkBool(smt.StrLe(a, b))
		case token.GTR:
			return mkBool(smt.StrLt(b, a))
		case token.GEQ:
			return mkBool(smt.StrLe(b, a))
		}
	case types.Float32, types.Float64:
		switch op {
		case token.ADD:
			return fromTerm(smt.FPBin("fp.add", a, b), k)
		case token.SUB:
			return fromTerm(smt.FPBin("fp.sub", a, b), k)
		case token.MUL:
			return fromTerm(smt.FPBin("fp.mul", a, b), k)
		case token.QUO:
			return fromTerm(smt.FPBin("fp.div", a, b), k)
		case token.EQL:
			return mkBool(smt.FPCmp("fp.eq", a, b))
		case token.NEQ:
			return mkBool(smt.Not(smt.FPCmp("fp.eq", a, b)))
		case token.LSS:
			return mkBool(smt.FPCmp("fp.lt", a, b))
		case token.LEQ:
			return mkBool(smt.FPCmp("fp.leq", a, b))
		case token.GTR:
			return mkBool(smt.FPCmp("fp.gt", a, b))
		case token.GEQ:
			return mkBool(smt.FPCmp("fp.geq", a, b))
		}
	default:
		w, signed, _ := kindInfo(k)
		if w == 0 {
			break
		}
		pick := func(s, u string) string {
			if signed {
				return s
			}
			return u
		}
		switch op {
		case token.ADD:
			return fromTerm(smt.BVBin("bvadd", a, b), k)
		case token.SUB:
			return fromTerm(smt.BVBin("bvsub", a, b), k)
		case token.MUL:
			return fromTerm(smt.BVBin("bvmul", a, b), k)
		case token.QUO, token.REM:
			zero := smt.Eq(b, smt.BVConst(w, 0))
			if i == nil {
				panic(unsupported{"symbolic division outside the interpreter"})
			}
			if i.branch(zero) {
				panic(runtimePanic("integer divide by zero"))
			}
			if op == token.QUO {
				return fromTerm(smt.BVBin(pick("bvsdiv", "bvudiv"), a, b), k)
			}
			return fromTerm(smt.BVBin(pick("bvsrem", "bvurem"), a, b), k)
		case token.AND:
			return fromTerm(smt.BVBin("bvand", a, b), k)
		case token.OR:
			return fromTerm(smt.BVBin("bvor", a, b), k)
		case token.XOR:
			return fromTerm(smt.BVBin("bvxor", a, b), k)
		case token.AND_NOT:
			return fromTerm(smt.BVBin("bvand", a, smt.BVNot(b)), k)
		case token.SHL, token.SHR:
			yk := dynKind(y)
			yw, ysigned, _ := kindInfo(yk)
			if yw == 0 {
				break
			}
			y64 := smt.BVResize(b, 64, ysigned)
			big := smt.BVCmp("bvuge", y64, smt.BVConst(64, uint64(w)))
			cnt := smt.BVResize(y64, w, false)
			var sh, over *smt.Term
			if op == token.SHL {
				sh, over = smt.BVBin("bvshl", a, cnt), smt.BVConst(w, 0)
			} else if signed {
				sh, over = smt.BVBin("bvashr", a, cnt), smt.BVBin("bvashr", a, smt.BVConst(w, uint64(w-1)))
			} else {
				sh, over = smt.BVBin("bvlshr", a, cnt), smt.BVConst(w, 0)
			}
			return fromTerm(smt.Ite(big, over, sh), k)
		case token.EQL:
			return mkBool(smt.Eq(a, b))
		case token.NEQ:
			return mkBool(smt.Not(smt.Eq(a, b)))
		case token.LSS:
			return mkBool(smt.BVCmp(pick("bvslt", "bvult"), a, b))
		case token.LEQ:
			return mkBool(smt.BVCmp(pick("bvsle", "bvule"), a, b))
		case token.GTR:
			return mkBool(smt.BVCmp(pick("bvsgt", "bvugt"), a, b))
		case token.GEQ:
			return mkBool(smt.BVCmp(pick("bvsge", "bvuge"), a, b))
		}
	}
	panic(unsupported{fmt.Sprintf("symbolic binary op %T %s %T", x, op, y)})
}

func symBinop(op token.Token, t types.Type, x, y value) value {
	return (*interpreter)(nil).symBinop(op, t, x, y)
}

func symUnop(op token.Token, x sym) value {
	switch op {
	case token.NOT:
		return mkBool(smt.Not(x.T))
	case token.SUB:
		if _, _, fl := kindInfo(x.K); fl {
			return fromTerm(smt.FPNeg(x.T), x.K)
		}
		return fromTerm(smt.BVNeg(x.T), x.K)
	case token.XOR:
		return fromTerm(smt.BVNot(x.T), x.K)
	}
	panic(unsupported{fmt.Sprintf("symbolic unary op %s", op)})
}

func symStrLen(x sym) value {
	return fromTerm(smt.Int2BV(smt.StrLen(x.T), 64), types.Int)
}

// symConv converts a symbolic scalar between basic types.
func symConv(tDst, tSrc types.Type, x sym) value {
	dk, ok := basicKindOf(tDst)
	if !ok {
		panic(unsupported{fmt.Sprintf("conversion of symbolic %v to %v", tSrc, tDst)})
	}
	return symConvKind(dk, x)
}

func symConvKind(dk types.BasicKind, x sym) value {
	sk := x.K
	if sk == dk {
		return x
	}
	sw, ssigned, sfloat := kindInfo(sk)
	dw, dsigned, dfloat := kindInfo(dk)
	switch {
	case sk == types.String && dk == types.String, sk == types.Bool && dk == types.Bool:
		return sym{x.T, dk}
	case sw == 0 || dw == 0:
		panic(unsupported{fmt.Sprintf("conversion of symbolic kind %v to %v", sk, dk)})
	case !sfloat && !dfloat:
		return fromTerm(smt.BVResize(x.T, dw, ssigned), dk)
	case !sfloat && dfloat:
		return fromTerm(smt.FPFromBV(x.T, ssigned, sortOfKind(dk)), dk)
	case sfloat && dfloat:
		return fromTerm(smt.FPToFP(x.T, sortOfKind(dk)), dk)
	default: // float -> int
		return fromTerm(smt.FPToBV(x.T, dw, dsigned), dk)
	}
}

// convAny converts a concrete or symbolic basic value to kind dk.
func convAny(dk types.BasicKind, x value) value {
	if xs, ok := x.(sym); ok {
		return symConvKind(dk, xs)
	}
	return conv(types.Typ[dk], types.Typ[dynKind(x)], x)
}

// symEquals computes x == y for values that may contain symbolic scalars.
func symEquals(t types.Type, x, y value) *smt.Term {
	switch xv := x.(type) {
	case sym:
		if xv.T.Sort == smt.FP32 || xv.T.Sort == smt.FP64 {
			return smt.FPCmp("fp.eq", xv.T, coerceTerm(y, xv.T.Sort))
		}
		return smt.Eq(xv.T, coerceTerm(y, xv.T.Sort))
	case iface:
		yv := y.(iface)
		if !sameType(xv.t, yv.t) {
			return smt.False
		}
		if xv.t == nil {
			return smt.True
		}
		return symEquals(xv.t, xv.v, yv.v)
	case structure:
		yv := y.(structure)
		st := t.Underlying().(*types.Struct)
		var parts []*smt.Term
		for k := 0; k < st.NumFields(); k++ {
			parts = append(parts, symEquals(st.Field(k).Type(), xv[k], yv[k]))
		}
		return smt.And(parts...)
	case array:
		yv := y.(array)
		et := t.Underlying().(*types.Array).Elem()
		var parts []*smt.Term
		for k := range xv {
			parts = append(parts, symEquals(et, xv[k], yv[k]))
		}
		return smt.And(parts...)
	}
	if ys, ok := y.(sym); ok {
		if ys.T.Sort == smt.FP32 || ys.T.Sort == smt.FP64 {
			return smt.FPCmp("fp.eq", coerceTerm(x, ys.T.Sort), ys.T)
		}
		return smt.Eq(coerceTerm(x, ys.T.Sort), ys.T)
	}
	return smt.BoolConst(equals(t, x, y))
}

func coerceTerm(v value, s smt.Sort) *smt.Term {
	t := toTerm(v)
	if t.Sort != s {
		panic(unsupported{fmt.Sprintf("comparison of sorts %v and %v", t.Sort, s)})
	}
	return t
}

// floatBits returns the IEEE bit pattern term of a float value.
func floatBitsConst(f float64) uint64 { return math.Float64bits(f) }

func smtNot(t *smt.Term) *smt.Term { return smt.Not(t) }

func smtResize(s sym, w int, signed bool) *smt.Term { return smt.BVResize(s.T, w, signed) }
