package interp

import (
	"fmt"
	"go/token"
	"go/types"
	"os"
	"sort"
	"strings"
	"sync"
	"time"

	"golang.org/x/tools/go/ssa"

	"symgo/smt"
)

// Config controls one exploration.
type Config struct {
	MaxSteps       int      // SSA steps per path
	MaxPaths       int      // safety valve
	InitPkgs       []string // import-path prefixes whose package init runs
	TrackFields    []string // "pkg.Type.field" whose accesses become events
	TrackStructsOf []string // package names: every field of every struct of these packages is tracked
	TrackHostStructs bool   // whole-struct reads / writes made through reflect on injected (harness-package) structs are accesses
	TrackAllocs    []string // "func-substring:var" heap locals whose accesses become events
	TrackMakeMaps  []string // function-name substrings whose MakeMap results are tracked
	NewestFirst    bool     // thread pick policy (second extraction)
	Bridge         Bridge   // parser bridge (nil = unsupported)
	SolverTimeout  int      // ms
	StepsAreHang   bool     // exhausting the step budget is a violation (C09) instead of inconclusive
	Z3             string
	Log            func(string)
}

// Violation is a failed assertion or another reportable outcome of a path.
type Violation struct {
	Kind   string            `json:"kind"` // assert, crash, deadlock, order, join, race, ...
	Label  string            `json:"label"`
	Key    string            `json:"key"`
	Detail string            `json:"detail"`
	Model  map[string]string `json:"model"`
	Path   []int             `json:"path"`
	Trace  []string          `json:"trace,omitempty"`
}

// PathResult summarises one explored path.
type PathResult struct {
	Decisions  []int
	End        string // done, infeasible, unsupported, violation, crash, deadlock, steps
	Msg        string
	Reached    []string
	Violations []Violation
	Steps      int
	Events     int
	Threads    int
	Queries    int
	Assumes    []string
	Unknowns   int
	Model      map[string]string // sampled model of the path condition (validation)
	Trace      []string
	MapForks   int
}

// Report is the outcome of exploring one harness function.
type Report struct {
	Harness     string
	Paths       []PathResult
	Violations  []Violation
	Reached     map[string]int
	Ends        map[string]int
	Unsupported []string
	Funcs       map[string]bool
	Stubs       map[string]int
	Solver      smt.Stats
	Wall        float64
	Steps       int
	Events      int
	SchedQ      int
	Assumes     map[string]bool
	Unknowns    int
}

type interpreter struct {
	prog               *ssa.Program
	globals            map[*ssa.Global]*value
	sizes              types.Sizes
	runtimeErrorString types.Type
	lastClock          *smt.Term // latest reading of the clock stub
	fmtDepth           int       // nesting depth of the value currently converted for fmt
	cfg                *Config
	solver             *smt.Solver

	// decisions
	prefix  []int
	path    []int
	pending [][]int
	unknown int

	// symbols of this path
	symbols  []*smt.Term
	symKinds []types.BasicKind
	symNames map[string]int
	pcLen    int

	steps    int
	maxSteps int

	// threads
	threads  []*thread
	cur      *thread
	aborting *engineAbort
	wg       sync.WaitGroup
	mu       sync.Mutex

	// events / tracking
	events     []*event
	cellLoc    map[*value]*location
	locs       map[string]*location
	mutexes    map[*value]*mutexState
	wgs        map[*value]*wgState
	nextMapID  int
	trackField map[string]bool

	// harness state
	res          *PathResult
	funcs        map[string]bool
	stubs        map[string]int
	counts       map[string]int
	trace        []string
	exploreMO    bool
	bridge       *bridgeState
	salMarks     map[int64]value
	expectEnd    string
	schedQ       int
	extCache     map[*ssa.Function]externalFn
	choices      map[string]string
	onces        map[*value]*onceState
	pools        map[*value]*poolState
	syncMaps     map[*value]*omap
	atomicMu     map[*value]*value
	bufs         map[*value]*[]byte
	nextChanID   int
	schedCache   map[string]bool
	schedHits    int
	reflectTable map[string]externalFn
}

func (i *interpreter) logf(format string, args ...interface{}) {
	if i.cfg.Log != nil {
		i.cfg.Log(fmt.Sprintf(format, args...))
	}
}

func (i *interpreter) noteFunc(fn *ssa.Function) {
	if fn.Pkg != nil && strings.HasPrefix(fn.Pkg.Pkg.Path(), "github.com/bilibili/gengine") && !strings.Contains(fn.Pkg.Pkg.Path(), "zz_verif") {
		name := fn.String()
		if !i.funcs[name] {
			i.funcs[name] = true
		}
	}
}

// ---- decisions -------------------------------------------------------------

func (i *interpreter) assertPC(t *smt.Term) {
	i.solver.Assert(t)
	i.pcLen++
}

func (i *interpreter) feasible(t *smt.Term) bool {
	if t.IsConst {
		return t.U != 0
	}
	r := i.solver.CheckWith(t)
	i.res.Queries++
	if r == smt.Unknown {
		i.unknown++
		i.res.Unknowns++
		return true
	}
	return r == smt.Sat
}

// decide picks one of the mutually exclusive alternatives, forking over the
// feasible ones. It returns -1 when none is feasible (path dies).
func (i *interpreter) decide(alts []*smt.Term) int {
	pos := len(i.path)
	if pos < len(i.prefix) {
		k := i.prefix[pos]
		i.path = append(i.path, k)
		i.assertPC(alts[k])
		return k
	}
	var feas []int
	for k, a := range alts {
		if k == len(alts)-1 && len(feas) == 0 && len(alts) == 2 {
			// PC is satisfiable and the first alternative is not: the
			// complement must be.
			feas = append(feas, k)
			break
		}
		if i.feasible(a) {
			feas = append(feas, k)
		}
	}
	if len(feas) == 0 {
		panic(engineAbort{kind: "infeasible", msg: "no feasible alternative"})
	}
	for _, k := range feas[1:] {
		np := append(append([]int{}, i.path...), k)
		i.pending = append(i.pending, np)
	}
	k := feas[0]
	i.path = append(i.path, k)
	i.assertPC(alts[k])
	return k
}

// branch follows a symbolic condition.
func (i *interpreter) branch(c *smt.Term) bool {
	if c.IsConst {
		return c.U != 0
	}
	return i.decide([]*smt.Term{c, smt.Not(c)}) == 0
}

// chooseN forks over n unconstrained alternatives (harness nondeterminism,
// map iteration orders, read-from choices).
func (i *interpreter) chooseN(n int) int {
	if n <= 1 {
		return 0
	}
	pos := len(i.path)
	if pos < len(i.prefix) {
		k := i.prefix[pos]
		i.path = append(i.path, k)
		return k
	}
	for k := 1; k < n; k++ {
		np := append(append([]int{}, i.path...), k)
		i.pending = append(i.pending, np)
	}
	i.path = append(i.path, 0)
	return 0
}

// chooseIndex forks a 64-bit index term over 0..n-1 and out-of-range (-1).
func (i *interpreter) chooseIndex(t64 *smt.Term, n int) int {
	alts := make([]*smt.Term, 0, n+1)
	for k := 0; k < n; k++ {
		alts = append(alts, smt.Eq(t64, smt.BVConst(64, uint64(k))))
	}
	alts = append(alts, smt.Not(smt.BVCmp("bvult", t64, smt.BVConst(64, uint64(n)))))
	k := i.decide(alts)
	if k == n {
		return -1
	}
	return k
}

// newSymbol declares a fresh input symbol of the given kind.
func (i *interpreter) newSymbol(name string, k types.BasicKind) sym {
	if n, ok := i.symNames[name]; ok {
		i.symNames[name] = n + 1
		name = fmt.Sprintf("%s#%d", name, n+1)
	} else {
		i.symNames[name] = 0
	}
	srt := sortOfKind(k)
	decl := srt
	// floats are declared through their bit pattern so that models are exact
	if srt == smt.FP32 {
		decl = smt.BV32
	} else if srt == smt.FP64 {
		decl = smt.BV64
	}
	v := smt.Var(name, decl)
	i.solver.Declare(name, decl)
	i.symbols = append(i.symbols, v)
	i.symKinds = append(i.symKinds, k)
	t := v
	if srt == smt.FP32 || srt == smt.FP64 {
		t = smt.FPFromBits(v)
	}
	return sym{t, k}
}

// model reads the current model of all input symbols (after a Sat check,
// before the pop) as printable Go literals.
func (i *interpreter) readModel() map[string]string {
	m, err := i.solver.Model(i.symbols)
	out := map[string]string{}
	if err != nil {
		out["!error"] = err.Error()
		return out
	}
	for k, c := range i.choices {
		out[k] = c
	}
	for k, v := range i.symbols {
		mv := m[v.S]
		name := strings.Trim(v.S, "|")
		switch i.symKinds[k] {
		case types.Bool:
			out[name] = fmt.Sprint(mv.U != 0)
		case types.String:
			out[name] = fmt.Sprintf("%q", mv.Str)
		default:
			out[name] = fmt.Sprintf("0x%x", mv.U)
		}
	}
	return out
}

// violate records a violation whose witness is the current path condition
// plus cond; the model is read here.
func (i *interpreter) violate(kind, label, key, detail string, cond *smt.Term) {
	v := Violation{Kind: kind, Label: label, Key: key, Detail: detail, Path: append([]int{}, i.path...)}
	i.solver.Push()
	if cond != nil {
		i.solver.Assert(cond)
	}
	r := i.solver.Check()
	i.res.Queries++
	if r == smt.Sat {
		v.Model = i.readModel()
	} else {
		v.Model = map[string]string{"!status": r.String()}
	}
	i.solver.Pop()
	v.Trace = append([]string{}, i.trace...)
	if len(i.threads) > 1 && v.Model != nil && kind == "assert" {
		// The violation was observed on the extracted run of a concurrent path:
		// make the native replay take the same order of marks (each mark of a
		// goroutine waits for the mark that preceded it in the extracted run).
		var prev *event
		for _, ev := range i.events {
			if ev.kind != "mark" {
				continue
			}
			if prev != nil && prev.th != ev.th && prev.name != ev.name {
				if _, dup := v.Model["hold:"+ev.name]; !dup {
					v.Model["hold:"+ev.name] = prev.name
				}
			}
			prev = ev
		}
	}
	i.res.Violations = append(i.res.Violations, v)
}

// ---- running paths ---------------------------------------------------------

func (i *interpreter) initGlobals() {
	i.globals = make(map[*ssa.Global]*value)
}

func (i *interpreter) wantInit(pkg *ssa.Package) bool {
	if pkg == nil {
		return false
	}
	p := pkg.Pkg.Path()
	for _, pre := range i.cfg.InitPkgs {
		if strings.HasPrefix(p, pre) {
			return !strings.Contains(p, "/iantlr/") && !strings.Contains(p, "zz_verif/vnd")
		}
	}
	return false
}

// runPath executes harness fn along the decision prefix.
func (i *interpreter) runPath(fn *ssa.Function, prefix []int) (res *PathResult) {
	i.prefix = prefix
	i.path = nil
	i.pending = nil
	i.symbols, i.symKinds = nil, nil
	i.symNames = map[string]int{}
	i.lastClock = nil
	i.fmtDepth = 0
	i.steps = 0
	i.maxSteps = i.cfg.MaxSteps
	i.threads = nil
	i.aborting = nil
	i.events = nil
	i.cellLoc = map[*value]*location{}
	i.locs = map[string]*location{}
	i.mutexes = map[*value]*mutexState{}
	i.wgs = map[*value]*wgState{}
	i.onces = nil
	i.pools = nil
	i.syncMaps = nil
	i.atomicMu = nil
	i.bufs = nil
	i.counts = map[string]int{}
	i.choices = map[string]string{}
	i.trace = nil
	i.exploreMO = false
	i.salMarks = map[int64]value{}
	i.expectEnd = ""
	i.bridge = &bridgeState{}
	i.res = &PathResult{}
	res = i.res
	i.solver.Reset()
	i.pcLen = 0
	i.initGlobals()

	main := &thread{id: 0, parent: -1, state: tRunning, wake: make(chan struct{}, 1)}
	i.threads = []*thread{main}
	i.cur = main

	func() {
		defer func() {
			p := recover()
			if p == nil {
				res.End = "done"
				return
			}
			i.classifyEnd(p, main)
		}()
		// package initialisers (only for configured packages)
		if fn.Pkg != nil {
			if init := fn.Pkg.Func("init"); init != nil {
				call(i, nil, token.NoPos, init, nil)
			}
		}
		call(i, nil, token.NoPos, fn, nil)
		i.quiesce(main)
	}()
	main.state = tDone
	i.finishThreads()
	if i.aborting != nil && res.End == "done" {
		i.classifyEnd(*i.aborting, main)
	}
	if i.expectEnd != "" {
		if res.End == i.expectEnd {
			res.End = "done"
			res.Msg = "expected " + i.expectEnd
		} else if res.End == "done" {
			res.End = "violation"
			i.res.Violations = append(i.res.Violations, Violation{Kind: "expect", Label: "expected end " + i.expectEnd, Key: "expect|" + i.expectEnd, Path: append([]int{}, i.path...)})
		}
	}
	res.Decisions = append([]int{}, i.path...)
	res.Steps = i.steps
	res.Events = len(i.events)
	res.Threads = len(i.threads)
	return res
}

func (i *interpreter) classifyEnd(p interface{}, th *thread) {
	res := i.res
	switch p := p.(type) {
	case engineAbort:
		res.End, res.Msg = p.kind, p.msg
	case unsupported:
		res.End, res.Msg = "unsupported", p.what
	case targetPanic:
		res.End = "crash"
		res.Msg = fmt.Sprintf("uncaught panic in thread %d: %s", th.id, i.panicText(p))
	default:
		res.End = "unsupported"
		res.Msg = fmt.Sprintf("interpreter panic: %v", p)
	}
}

func (i *interpreter) panicText(p targetPanic) string {
	defer func() { recover() }()
	return fmt.Sprint(i.toNative(p.v))
}

// ---- exploration -----------------------------------------------------------

// Explorer owns a program and runs harnesses on it. One Explorer may be used
// by several goroutines through NewWorker.
type Explorer struct {
	Prog *ssa.Program
	Cfg  Config
}

type Worker struct {
	i *interpreter
}

func (e *Explorer) NewWorker() (*Worker, error) {
	cfg := e.Cfg
	if cfg.MaxSteps == 0 {
		cfg.MaxSteps = 5_000_000
	}
	if cfg.MaxPaths == 0 {
		cfg.MaxPaths = 200_000
	}
	if cfg.SolverTimeout == 0 {
		cfg.SolverTimeout = 20_000
	}
	if cfg.Z3 == "" {
		cfg.Z3 = "z3"
	}
	s, err := smt.NewZ3(cfg.Z3, cfg.SolverTimeout)
	if err != nil {
		return nil, err
	}
	if p := os.Getenv("SYMGO_SMTLOG"); p != "" {
		if f, err := os.OpenFile(p, os.O_CREATE|os.O_WRONLY|os.O_APPEND, 0o644); err == nil {
			s.Log = f
		}
	}
	i := &interpreter{
		prog:     e.Prog,
		sizes:    types.SizesFor("gc", "amd64"),
		cfg:      &cfg,
		solver:   s,
		extCache: map[*ssa.Function]externalFn{},
	}
	i.trackField = map[string]bool{}
	for _, f := range cfg.TrackFields {
		i.trackField[f] = true
	}
	if rt := e.Prog.ImportedPackage("runtime"); rt != nil {
		i.runtimeErrorString = rt.Type("errorString").Object().Type()
	}
	return &Worker{i: i}, nil
}

func (w *Worker) Close() { w.i.solver.Close() }

// Explore runs every path of the harness function.
func (w *Worker) Explore(fn *ssa.Function) *Report {
	i := w.i
	t0 := time.Now()
	before := i.solver.Stats
	rep := &Report{Harness: fn.String(), Reached: map[string]int{}, Ends: map[string]int{}, Funcs: map[string]bool{}, Stubs: map[string]int{}, Assumes: map[string]bool{}}
	i.funcs = rep.Funcs
	i.stubs = rep.Stubs
	i.schedQ = 0
	queue := [][]int{nil}
	unsup := map[string]bool{}
	sampled := 0
	for len(queue) > 0 {
		if len(rep.Paths) >= i.cfg.MaxPaths {
			rep.Unsupported = append(rep.Unsupported, fmt.Sprintf("path limit %d reached with %d prefixes pending", i.cfg.MaxPaths, len(queue)))
			rep.Ends["pathlimit"]++
			break
		}
		prefix := queue[len(queue)-1]
		queue = queue[:len(queue)-1]
		res := i.runPath(fn, prefix)
		queue = append(queue, i.pending...)
		rep.Ends[res.End]++
		for _, r := range res.Reached {
			rep.Reached[r]++
		}
		for _, a := range res.Assumes {
			rep.Assumes[a] = true
		}
		rep.Steps += res.Steps
		rep.Events += res.Events
		rep.Unknowns += res.Unknowns
		if res.End == "steps" && i.cfg.StepsAreHang {
			res.End = "hang"
			i.violate("hang", "the call does not return within the step budget", "hang", res.Msg, nil)
		}
		if res.End == "unsupported" || res.End == "steps" {
			if !unsup[res.End+": "+res.Msg] {
				unsup[res.End+": "+res.Msg] = true
				rep.Unsupported = append(rep.Unsupported, res.End+": "+res.Msg)
			}
		}
		if res.End == "crash" || res.End == "deadlock" {
			// a crash/deadlock the harness did not expect is a violation whose
			// witness is the path condition itself
			i.violate(res.End, res.Msg, res.End+"|"+firstLine(res.Msg), res.Msg, nil)
		}
		rep.Violations = append(rep.Violations, res.Violations...)
		res.Trace = append([]string{}, i.trace...)
		if res.End == "done" && sampled < 3 && (len(rep.Paths)%5 == 0) {
			if i.solver.Check() == smt.Sat {
				res.Model = i.readModel()
				sampled++
			}
		}
		// keep the per-path record small
		pr := *res
		pr.Violations = nil
		rep.Paths = append(rep.Paths, pr)
	}
	sort.Strings(rep.Unsupported)
	after := i.solver.Stats
	rep.Solver = smt.Stats{
		Queries: after.Queries - before.Queries, Sat: after.Sat - before.Sat, Unsat: after.Unsat - before.Unsat,
		Unknown: after.Unknown - before.Unknown, Errors: after.Errors - before.Errors, Restarts: after.Restarts - before.Restarts,
		Seconds: after.Seconds - before.Seconds, MaxQuery: after.MaxQuery, Fallbacks: after.Fallbacks - before.Fallbacks,
	}
	rep.SchedQ = i.schedQ
	rep.Wall = time.Since(t0).Seconds()
	return rep
}

func firstLine(s string) string {
	if k := strings.IndexByte(s, '\n'); k >= 0 {
		return s[:k]
	}
	return s
}
