package interp

import (
	"os"
	"fmt"
	"go/token"
	"go/types"
	"strings"

	"golang.org/x/tools/go/ssa"

	"symgo/smt"
)

// ---- cooperative threads ---------------------------------------------------

const (
	tRunnable = iota
	tRunning
	tBlocked
	tQuiescing
	tDone
)

type thread struct {
	id      int
	parent  int
	state   int
	wake    chan struct{}
	waitOn  interface{}
	lastEv  *event
	crashed bool
	held    []int // ids of the mutexes this thread holds
	spins   int   // mutex acquisitions since the thread last blocked (busy-wait detection)
	yielded bool  // gave up the processor inside a busy-wait loop
}

type mutexState struct {
	id     int
	holder *thread
	name   string
}

type wgState struct {
	id      int
	counter int
	name    string
}

type location struct {
	id   int
	name string // e.g. "engine.Gengine.returnResult" or "alloc:eMsg@ExecuteConcurrent"
	user bool
}

type event struct {
	id    int
	th    int
	kind  string // spawn begin end lock unlock add wait read write mark
	obj   int    // mutex id / wg id / location id / child thread id
	n     int    // add amount
	name  string // mark name, location name
	fn    string // function performing the access
	pos   token.Pos
	prev  *event // program-order predecessor
	match *event // unlock for a lock
	src   *event // send / close that a channel receive observed
	locks []int  // mutexes held by the thread at this event (lockset)
}

func (i *interpreter) logEvent(th *thread, kind string, obj, n int, name string, fr *frame) *event {
	e := &event{id: len(i.events), th: th.id, kind: kind, obj: obj, n: n, name: name, prev: th.lastEv}
	if (kind == "read" || kind == "write") && len(th.held) > 0 {
		e.locks = append([]int{}, th.held...)
	}
	if fr != nil {
		e.fn = fr.fn.String()
	}
	th.lastEv = e
	i.events = append(i.events, e)
	return e
}

func (i *interpreter) spawn(fr *frame, instr *ssa.Go, fn value, args []value) {
	th := &thread{id: len(i.threads), parent: fr.th.id, state: tRunnable, wake: make(chan struct{}, 1)}
	i.threads = append(i.threads, th)
	i.logEvent(fr.th, "spawn", th.id, 0, "", fr)
	i.wg.Add(1)
	go func() {
		defer i.wg.Done()
		<-th.wake
		if i.aborting != nil {
			th.state = tDone
			return
		}
		aborted := false
		func() {
			defer func() {
				p := recover()
				if p == nil {
					return
				}
				aborted = true
				var ab engineAbort
				switch p := p.(type) {
				case engineAbort:
					ab = p
				case unsupported:
					ab = engineAbort{kind: "unsupported", msg: p.what}
				case targetPanic:
					ab = engineAbort{kind: "crash", msg: fmt.Sprintf("uncaught panic in goroutine %d: %s", th.id, i.panicText(p))}
				default:
					ab = engineAbort{kind: "unsupported", msg: fmt.Sprintf("interpreter panic in goroutine: %v", p)}
				}
				i.abortAll(ab)
			}()
			i.logEvent(th, "begin", th.parent, 0, "", nil)
			// run with a synthetic root frame so that fr.th is right
			root := &frame{i: i, th: th, fn: fr.fn}
			call(i, root, instr.Pos(), fn, args)
			i.logEvent(th, "end", 0, 0, "", nil)
		}()
		th.state = tDone
		if !aborted {
			i.switchFrom(th)
		}
	}()
}

// abortAll records the first abort and wakes every sleeping thread so that it
// unwinds.
func (i *interpreter) abortAll(ab engineAbort) {
	i.mu.Lock()
	if i.aborting == nil {
		i.aborting = &ab
	}
	i.mu.Unlock()
	for _, t := range i.threads {
		if t.state != tDone {
			select {
			case t.wake <- struct{}{}:
			default:
			}
		}
	}
}

func (i *interpreter) finishThreads() {
	ab := engineAbort{kind: "done"}
	i.mu.Lock()
	if i.aborting == nil {
		i.aborting = &ab
	}
	i.mu.Unlock()
	for _, t := range i.threads[1:] {
		if t.state != tDone {
			select {
			case t.wake <- struct{}{}:
			default:
			}
		}
	}
	i.wg.Wait()
}

func (i *interpreter) pickNext(from *thread) *thread {
	var quiescing *thread
	var spinner *thread
	pick := func(t *thread) bool {
		if t.state == tRunnable && t.yielded {
			if spinner == nil {
				spinner = t
			}
			return false
		}
		if t.state == tRunnable {
			return true
		}
		if t.state == tQuiescing {
			quiescing = t
		}
		return false
	}
	if i.cfg.NewestFirst {
		for k := len(i.threads) - 1; k >= 0; k-- {
			if pick(i.threads[k]) {
				return i.threads[k]
			}
		}
	} else {
		for _, t := range i.threads {
			if pick(t) {
				return t
			}
		}
	}
	if spinner != nil {
		return spinner // only busy-waiting threads are left runnable
	}
	return quiescing
}

// switchFrom hands the baton to the next runnable thread; th sleeps unless done.
func (i *interpreter) switchFrom(th *thread) {
	next := i.pickNext(th)
	if next == nil {
		if th.state == tDone {
			// nobody can run: whoever is blocked stays blocked; main must be
			// among them, tell it.
			i.abortAll(engineAbort{kind: "deadlock", msg: i.describeBlocked()})
			return
		}
		panic(engineAbort{kind: "deadlock", msg: i.describeBlocked()})
	}
	if next == th {
		th.state = tRunning
		return
	}
	i.cur = next
	next.state = tRunning
	next.wake <- struct{}{}
	if th.state != tDone {
		<-th.wake
		if i.aborting != nil {
			panic(*i.aborting)
		}
		i.cur = th
	}
}

func (i *interpreter) describeBlocked() string {
	var parts []string
	for _, t := range i.threads {
		if t.state == tBlocked {
			switch w := t.waitOn.(type) {
			case *mutexState:
				parts = append(parts, fmt.Sprintf("goroutine %d blocked on mutex %s", t.id, w.name))
			case *wgState:
				parts = append(parts, fmt.Sprintf("goroutine %d blocked in WaitGroup.Wait (counter %d)", t.id, w.counter))
			case *chanv:
				parts = append(parts, fmt.Sprintf("goroutine %d blocked on channel %d", t.id, w.id))
			default:
				parts = append(parts, fmt.Sprintf("goroutine %d blocked", t.id))
			}
		}
	}
	return "all goroutines are asleep: " + strings.Join(parts, "; ")
}

func (i *interpreter) block(th *thread, on interface{}) {
	th.spins = 0
	th.state = tBlocked
	th.waitOn = on
	i.switchFrom(th)
	th.waitOn = nil
}

// quiesce runs every other thread until all are done or blocked.
func (i *interpreter) quiesce(th *thread) {
	for {
		others := false
		for _, t := range i.threads {
			if t != th && t.state == tRunnable {
				others = true
			}
		}
		if !others {
			return
		}
		th.state = tQuiescing
		i.switchFrom(th)
		th.state = tRunning
	}
}

func (i *interpreter) blockedThreads() int {
	n := 0
	for _, t := range i.threads {
		if t.state == tBlocked {
			n++
		}
	}
	return n
}

// ---- sync model --------------------------------------------------------------

func (i *interpreter) mutexOf(p *value, fr *frame) *mutexState {
	m, ok := i.mutexes[p]
	if !ok {
		m = &mutexState{id: len(i.mutexes) + 1}
		m.name = fmt.Sprintf("m%d", m.id)
		i.mutexes[p] = m
	}
	return m
}

func (i *interpreter) wgOf(p *value) *wgState {
	w, ok := i.wgs[p]
	if !ok {
		w = &wgState{id: len(i.wgs) + 1}
		w.name = fmt.Sprintf("wg%d", w.id)
		i.wgs[p] = w
	}
	return w
}

func (i *interpreter) mutexLock(fr *frame, p *value) {
	m := i.mutexOf(p, fr)
	th := fr.th
	// a thread that keeps taking locks without ever blocking is busy-waiting (the pool's
	// getGengine polls this way): let the others run before it polls again
	th.spins++
	if th.spins > 2000 && len(th.held) == 0 {
		th.spins = 0
		th.yielded = true
		th.state = tRunnable
		i.switchFrom(th)
		th.yielded = false
	}
	for m.holder != nil {
		i.block(th, m)
	}
	m.holder = th
	th.held = append(th.held, m.id)
	i.logEvent(th, "lock", m.id, 0, m.name, fr)
}

func (i *interpreter) mutexUnlock(fr *frame, p *value) {
	m := i.mutexOf(p, fr)
	th := fr.th
	if m.holder == nil {
		panic(targetPanic{v: iface{t: types.Typ[types.String], v: "fatal error: sync: unlock of unlocked mutex"}})
	}
	m.holder = nil
	for k := len(th.held) - 1; k >= 0; k-- {
		if th.held[k] == m.id {
			th.held = append(th.held[:k], th.held[k+1:]...)
			break
		}
	}
	e := i.logEvent(th, "unlock", m.id, 0, m.name, fr)
	// match with the latest unmatched lock on this mutex
	for k := len(i.events) - 2; k >= 0; k-- {
		l := i.events[k]
		if l.kind == "lock" && l.obj == m.id && l.match == nil {
			l.match = e
			break
		}
	}
	for _, t := range i.threads {
		if t.state == tBlocked && t.waitOn == m {
			t.state = tRunnable
		}
	}
}

func (i *interpreter) wgAdd(fr *frame, p *value, n int) {
	w := i.wgOf(p)
	w.counter += n
	i.logEvent(fr.th, "add", w.id, n, w.name, fr)
	if w.counter < 0 {
		panic(targetPanic{v: iface{t: types.Typ[types.String], v: "sync: negative WaitGroup counter"}})
	}
	if w.counter == 0 {
		for _, t := range i.threads {
			if t.state == tBlocked && t.waitOn == w {
				t.state = tRunnable
			}
		}
	}
}

func (i *interpreter) wgWait(fr *frame, p *value) {
	w := i.wgOf(p)
	th := fr.th
	for w.counter > 0 {
		i.block(th, w)
	}
	i.logEvent(th, "wait", w.id, 0, w.name, fr)
}

// ---- channels and sync.Once ----------------------------------------------------

type chanv struct {
	id     int
	cap    int
	buf    []value
	bufEv  []*event
	sendq  []*pendingSend
	closed bool
	closeE *event
	elemT  types.Type
}

type pendingSend struct {
	v     value
	ev    *event
	taken bool
}

func (i *interpreter) wakeChan(ch *chanv) {
	for _, t := range i.threads {
		if t.state != tBlocked {
			continue
		}
		if t.waitOn == ch {
			t.state = tRunnable
		} else if sw, ok := t.waitOn.(*selectWait); ok {
			for _, c := range sw.chs {
				if c == ch {
					t.state = tRunnable
				}
			}
		}
	}
}

// selectWait is what a thread blocked in a select waits on.
type selectWait struct{ chs []*chanv }

// selectOp models a select statement: among the cases that can proceed now one is
// chosen (every choice is explored); a blocking select with none waits for any of
// its channels. A send case is ready when the buffer has room or a receiver cannot
// be told apart from a sender in this model, so sends on a full or unbuffered
// channel are never ready (unsupported if nothing else can ever proceed).
func (i *interpreter) selectOp(fr *frame, instr *ssa.Select) value {
	th := fr.th
	for {
		var ready []int
		var chs []*chanv
		sendOnly := true
		for k, st := range instr.States {
			ch, _ := fr.get(st.Chan).(*chanv)
			if ch == nil {
				continue
			}
			chs = append(chs, ch)
			if st.Dir == types.RecvOnly {
				sendOnly = false
				if len(ch.buf) > 0 || len(ch.sendq) > 0 || ch.closed {
					ready = append(ready, k)
				}
			} else if ch.closed || len(ch.buf) < ch.cap {
				ready = append(ready, k)
			}
		}
		if len(ready) > 0 {
			k := ready[i.chooseN(len(ready))]
			st := instr.States[k]
			ch := fr.get(st.Chan).(*chanv)
			res := tuple{k, false}
			var got value
			if st.Dir == types.RecvOnly {
				v, ok := i.chanRecv(fr, ch)
				got, res[1] = v, ok
			} else {
				i.chanSend(fr, ch, fr.get(st.Send))
			}
			for j, s2 := range instr.States {
				if s2.Dir == types.RecvOnly {
					if j == k {
						res = append(res, got)
					} else {
						c2, _ := fr.get(s2.Chan).(*chanv)
						var et types.Type
						if c2 != nil {
							et = c2.elemT
						} else {
							et = s2.Chan.Type().Underlying().(*types.Chan).Elem()
						}
						res = append(res, zero(et))
					}
				}
			}
			return res
		}
		if !instr.Blocking {
			res := tuple{-1, false}
			for _, s2 := range instr.States {
				if s2.Dir == types.RecvOnly {
					res = append(res, zero(s2.Chan.Type().Underlying().(*types.Chan).Elem()))
				}
			}
			return res
		}
		if len(chs) > 0 && sendOnly {
			panic(unsupported{"blocking select with only send cases on full or unbuffered channels"})
		}
		i.block(th, &selectWait{chs: chs})
	}
}

func (i *interpreter) chanSend(fr *frame, ch *chanv, v value) {
	th := fr.th
	if ch == nil {
		i.block(th, "nil channel")
		panic(engineAbort{kind: "deadlock", msg: "send on nil channel"})
	}
	if ch.closed {
		panic(runtimePanic("send on closed channel"))
	}
	e := i.logEvent(th, "chsend", ch.id, 0, "", fr)
	if len(ch.buf) < ch.cap {
		ch.buf = append(ch.buf, v)
		ch.bufEv = append(ch.bufEv, e)
		i.wakeChan(ch)
		return
	}
	ps := &pendingSend{v: v, ev: e}
	ch.sendq = append(ch.sendq, ps)
	i.wakeChan(ch)
	for !ps.taken {
		if ch.closed {
			panic(runtimePanic("send on closed channel"))
		}
		i.block(th, ch)
	}
}

func (i *interpreter) chanRecv(fr *frame, ch *chanv) (value, bool) {
	th := fr.th
	if ch == nil {
		i.block(th, "nil channel")
		panic(engineAbort{kind: "deadlock", msg: "receive from nil channel"})
	}
	for {
		if len(ch.buf) > 0 {
			v, src := ch.buf[0], ch.bufEv[0]
			ch.buf, ch.bufEv = ch.buf[1:], ch.bufEv[1:]
			if len(ch.sendq) > 0 {
				ps := ch.sendq[0]
				ch.sendq = ch.sendq[1:]
				ch.buf = append(ch.buf, ps.v)
				ch.bufEv = append(ch.bufEv, ps.ev)
				ps.taken = true
			}
			e := i.logEvent(th, "chrecv", ch.id, 0, "", fr)
			e.src = src
			i.wakeChan(ch)
			return v, true
		}
		if len(ch.sendq) > 0 {
			ps := ch.sendq[0]
			ch.sendq = ch.sendq[1:]
			ps.taken = true
			e := i.logEvent(th, "chrecv", ch.id, 0, "", fr)
			e.src = ps.ev
			i.wakeChan(ch)
			return ps.v, true
		}
		if ch.closed {
			e := i.logEvent(th, "chrecv", ch.id, 0, "", fr)
			e.src = ch.closeE
			return zero(ch.elemT), false
		}
		i.block(th, ch)
	}
}

func (i *interpreter) chanClose(fr *frame, ch *chanv) {
	if ch == nil {
		panic(runtimePanic("close of nil channel"))
	}
	if ch.closed {
		panic(runtimePanic("close of closed channel"))
	}
	ch.closed = true
	ch.closeE = i.logEvent(fr.th, "chclose", ch.id, 0, "", fr)
	i.wakeChan(ch)
}

type onceState struct {
	done bool
	m    *value
}

func (i *interpreter) onceDo(fr *frame, p *value, f value) {
	if i.onces == nil {
		i.onces = map[*value]*onceState{}
	}
	o, ok := i.onces[p]
	if !ok {
		o = &onceState{m: new(value)}
		i.onces[p] = o
	}
	i.mutexLock(fr, o.m)
	if !o.done {
		defer func() {
			o.done = true
			i.mutexUnlock(fr, o.m)
		}()
		call(i, fr, 0, f, nil)
		return
	}
	i.mutexUnlock(fr, o.m)
}

// ---- tracked locations -------------------------------------------------------

func (i *interpreter) locByName(name string, user bool) *location {
	l, ok := i.locs[name]
	if !ok {
		l = &location{id: len(i.locs) + 1, name: name, user: user}
		i.locs[name] = l
	}
	return l
}

func fieldKey(t types.Type, field int) (string, bool) {
	pt, ok := t.Underlying().(*types.Pointer)
	if !ok {
		return "", false
	}
	named, ok := pt.Elem().(*types.Named)
	if !ok {
		return "", false
	}
	st, ok := named.Underlying().(*types.Struct)
	if !ok {
		return "", false
	}
	pkg := ""
	if named.Obj().Pkg() != nil {
		pkg = named.Obj().Pkg().Name()
	}
	return pkg + "." + named.Obj().Name() + "." + st.Field(field).Name(), true
}

// trackFieldAddr is called for FieldAddr results.
func (i *interpreter) trackFieldAddr(fr *frame, instr *ssa.FieldAddr, obj *value, cell *value) {
	if len(i.trackField) == 0 && len(i.cfg.TrackStructsOf) == 0 {
		return
	}
	key, ok := fieldKey(instr.X.Type(), instr.Field)
	if !ok {
		return
	}
	if !i.trackField[key] {
		hit := false
		for _, pre := range i.cfg.TrackStructsOf {
			if strings.HasPrefix(key, pre+".") {
				hit = true
			}
		}
		if !hit {
			return
		}
	}
	if _, ok := i.cellLoc[cell]; ok {
		return
	}
	// distinguish objects by allocation order of first sight
	name := fmt.Sprintf("%s@%d", key, i.objectID(obj))
	i.cellLoc[cell] = i.locByName(name, false)
}

func (i *interpreter) objectID(p *value) int {
	l, ok := i.cellLoc[p]
	if ok {
		return l.id
	}
	l = &location{id: len(i.cellLoc) + 1000, name: "obj"}
	i.cellLoc[p] = l
	return l.id
}

func (i *interpreter) onLoad(fr *frame, instr ssa.Instruction, p *value) {
	if len(i.cellLoc) == 0 {
		return
	}
	if l, ok := i.cellLoc[p]; ok && l.name != "obj" {
		i.logEvent(fr.th, "read", l.id, 0, l.name, fr)
		if m, ok := (*p).(*omap); ok && m != nil && m.loc == nil {
			m.loc = i.locByName(l.name+"(map)", false)
		}
		if s, ok := (*p).([]value); ok && !strings.HasSuffix(l.name, "(elems)") {
			i.trackElems(s, l.name)
		}
	}
}

// trackElems makes the element cells of a slice held by a tracked field
// tracked locations themselves (one location per backing array).
func (i *interpreter) trackElems(s []value, name string) {
	full := s[:cap(s)]
	if len(full) == 0 {
		return
	}
	if _, ok := i.cellLoc[&full[0]]; ok {
		return
	}
	loc := i.locByName(fmt.Sprintf("%s(elems)#%d", locBase(name), len(i.cellLoc)), false)
	for k := range full {
		i.cellLoc[&full[k]] = loc
	}
}

// onAppend logs writes into tracked spare capacity.
func (i *interpreter) onAppend(fr *frame, dst []value, n int) {
	if len(i.cellLoc) == 0 || len(dst)+n > cap(dst) {
		return
	}
	full := dst[:cap(dst)]
	for k := len(dst); k < len(dst)+n; k++ {
		if l, ok := i.cellLoc[&full[k]]; ok && l.name != "obj" {
			i.logEvent(fr.th, "write", l.id, 0, l.name, fr)
		}
	}
}

func (i *interpreter) onStore(fr *frame, instr ssa.Instruction, p *value) {
	if len(i.cellLoc) == 0 {
		return
	}
	if l, ok := i.cellLoc[p]; ok && l.name != "obj" {
		i.logEvent(fr.th, "write", l.id, 0, l.name, fr)
	}
}

// atomicEvent: an atomic operation on a tracked cell is ordered with every other
// atomic operation on it; it is modelled as a tiny critical section of a mutex
// private to the cell, so two atomics never count as a race while an atomic
// and a plain access still do.
func (i *interpreter) atomicEvent(fr *frame, p *value, write bool) {
	l, ok := i.cellLoc[p]
	if !ok || l.name == "obj" {
		return
	}
	if i.atomicMu == nil {
		i.atomicMu = map[*value]*value{}
	}
	m, ok := i.atomicMu[p]
	if !ok {
		m = new(value)
		i.atomicMu[p] = m
	}
	i.mutexLock(fr, m)
	kind := "read"
	if write {
		kind = "write"
	}
	i.logEvent(fr.th, kind, l.id, 0, l.name, fr)
	i.mutexUnlock(fr, m)
}

type poolState struct{ items []value }

func (i *interpreter) syncPool(p *value) *poolState {
	if i.pools == nil {
		i.pools = map[*value]*poolState{}
	}
	ps, ok := i.pools[p]
	if !ok {
		ps = &poolState{}
		i.pools[p] = ps
	}
	return ps
}

func (i *interpreter) onMakeMap(fr *frame, instr *ssa.MakeMap, m *omap) {
	for _, s := range i.cfg.TrackMakeMaps {
		if strings.Contains(fr.fn.String(), s) {
			m.loc = i.locByName(fmt.Sprintf("map:%s#%d", s, m.id), false)
		}
	}
}

func (i *interpreter) onMapAccess(fr *frame, instr ssa.Instruction, m *omap, write bool) {
	if m == nil || m.loc == nil {
		return
	}
	kind := "read"
	if write {
		kind = "write"
	}
	i.logEvent(fr.th, kind, m.loc.id, 0, m.loc.name, fr)
}

func (i *interpreter) trackAlloc(fr *frame, instr *ssa.Alloc, cell *value) {
	if len(i.cfg.TrackAllocs) == 0 || instr.Comment == "" {
		return
	}
	for _, s := range i.cfg.TrackAllocs {
		if s == "*" {
			// every escaping local of the engine and AST packages (captured by the goroutines they start);
			// struct-typed locals (sync.WaitGroup, sync.Mutex, ...) are used through their address only
			if _, isStruct := mustDeref(instr.Type()).Underlying().(*types.Struct); isStruct {
				continue
			}
			if pk := fr.fn.Pkg; pk != nil && !strings.Contains(pk.Pkg.Path(), "/zz_verif") && strings.Contains(pk.Pkg.Path(), "bilibili/gengine") {
				i.cellLoc[cell] = i.locByName(fmt.Sprintf("var:%s@%s#%d", instr.Comment, fr.fn.Name(), len(i.cellLoc)), false)
			}
			continue
		}
		if s == instr.Comment {
			i.cellLoc[cell] = i.locByName(fmt.Sprintf("var:%s@%s#%d", s, fr.fn.Name(), len(i.cellLoc)), false)
		}
	}
}

// ---- schedule encoding -------------------------------------------------------

func tsVar(e *event) *smt.Term { return smt.Var(fmt.Sprintf("ts!%d", e.id), smt.Int) }

// relevantEvents drops lock/unlock events of mutexes that only one thread ever
// touches (they constrain nothing) and returns, per kept event, its kept
// program-order predecessor.
func (i *interpreter) relevantEvents() ([]*event, map[*event]*event) {
	users := map[int]map[int]bool{}
	for _, e := range i.events {
		if e.kind == "lock" || e.kind == "unlock" {
			if users[e.obj] == nil {
				users[e.obj] = map[int]bool{}
			}
			users[e.obj][e.th] = true
		}
	}
	written := map[int]bool{}
	accessors := map[int]map[int]bool{}
	for _, e := range i.events {
		if e.kind == "write" {
			written[e.obj] = true
		}
		if e.kind == "write" || e.kind == "read" {
			if accessors[e.obj] == nil {
				accessors[e.obj] = map[int]bool{}
			}
			accessors[e.obj][e.th] = true
		}
	}
	keep := func(e *event) bool {
		if e.kind == "lock" || e.kind == "unlock" {
			return len(users[e.obj]) > 1
		}
		if e.kind == "read" || e.kind == "write" {
			// a location nobody writes, or that only one thread touches, cannot race
			return written[e.obj] && len(accessors[e.obj]) > 1
		}
		return true
	}
	var out []*event
	prev := map[*event]*event{}
	for _, e := range i.events {
		if !keep(e) {
			continue
		}
		out = append(out, e)
		p := e.prev
		for p != nil && !keep(p) {
			p = p.prev
		}
		if p != nil {
			prev[e] = p
		}
	}
	return out, prev
}

// scheduleConstraints asserts, in the current solver scope, the constraints
// that every consistent interleaving of the logged events satisfies.
func (i *interpreter) scheduleConstraints() {
	s := i.solver
	evs, prev := i.relevantEvents()
	var all []*smt.Term
	for _, e := range evs {
		s.Declare(fmt.Sprintf("ts!%d", e.id), smt.Int)
		all = append(all, tsVar(e))
		s.Assert(smt.IntCmp(">=", tsVar(e), smt.IntConst(0)))
	}
	if len(all) > 1 {
		s.Assert(smt.Distinct(all...))
	}
	begin := map[int]*event{}
	for _, e := range evs {
		if e.kind == "begin" {
			begin[e.th] = e
		}
	}
	for _, e := range evs {
		if p := prev[e]; p != nil {
			s.Assert(smt.IntCmp("<", tsVar(p), tsVar(e)))
		}
		if e.kind == "spawn" {
			if b := begin[e.obj]; b != nil {
				s.Assert(smt.IntCmp("<", tsVar(e), tsVar(b)))
			}
		}
		if e.kind == "chrecv" && e.src != nil {
			s.Assert(smt.IntCmp("<", tsVar(e.src), tsVar(e)))
		}
	}
	// reads-from under a common lock: a read inside a critical section that observed, in the extracted
	// run, the value another thread wrote inside a critical section of the same mutex (the pool's lists
	// handing an instance from one request to the next) keeps that order in every schedule of this
	// control path - the path's control and data flow depend on it, and such pairs cannot race anyway
	lastWrite := map[int]*event{}
	for _, e := range evs {
		if e.kind == "write" {
			lastWrite[e.obj] = e
		} else if e.kind == "read" {
			if w := lastWrite[e.obj]; w != nil && w.th != e.th && commonLock(w.locks, e.locks) {
				s.Assert(smt.IntCmp("<", tsVar(w), tsVar(e)))
			}
		}
	}
	// mutual exclusion
	type section struct{ l, u *event }
	secs := map[int][]section{}
	for _, e := range evs {
		if e.kind == "lock" {
			secs[e.obj] = append(secs[e.obj], section{e, e.match})
		}
	}
	for _, ss := range secs {
		for a := 0; a < len(ss); a++ {
			for b := a + 1; b < len(ss); b++ {
				x, y := ss[a], ss[b]
				if x.l.th == y.l.th {
					continue
				}
				var alts []*smt.Term
				if x.u != nil {
					alts = append(alts, smt.IntCmp("<", tsVar(x.u), tsVar(y.l)))
				}
				if y.u != nil {
					alts = append(alts, smt.IntCmp("<", tsVar(y.u), tsVar(x.l)))
				}
				s.Assert(smt.Or(alts...))
			}
		}
	}
	// wait groups
	adds := map[int][]*event{}
	for _, e := range evs {
		if e.kind == "add" {
			adds[e.obj] = append(adds[e.obj], e)
		}
	}
	counterAt := func(w int, at *event, inclusive bool) *smt.Term {
		var parts []*smt.Term
		for _, a := range adds[w] {
			if a == at {
				if inclusive {
					parts = append(parts, smt.IntConst(int64(a.n)))
				}
				continue
			}
			parts = append(parts, smt.Ite(smt.IntCmp("<", tsVar(a), tsVar(at)), smt.IntConst(int64(a.n)), smt.IntConst(0)))
		}
		return smt.IntSum(parts...)
	}
	for _, e := range evs {
		switch e.kind {
		case "wait":
			s.Assert(smt.Eq(counterAt(e.obj, e, false), smt.IntConst(0)))
		case "add":
			if e.n < 0 {
				s.Assert(smt.IntCmp(">=", counterAt(e.obj, e, true), smt.IntConst(0)))
			}
		}
	}
}

// schedQuery decides whether cond is satisfiable in some consistent schedule
// of the current path (data path condition included).
func (i *interpreter) schedQuery(cond *smt.Term) (smt.Result, map[string]string, []string) {
	s := i.solver
	// The schedule constraints and cond mention time stamps only, so the
	// verdict depends on the event structure alone: unsat verdicts are cached
	// by structure (sat ones are re-solved to obtain a model with the data).
	var sig strings.Builder
	rel0, prev0 := i.relevantEvents()
	for _, e := range rel0 {
		p := -1
		if q := prev0[e]; q != nil {
			p = q.id
		}
		m := -1
		if e.match != nil {
			m = e.match.id
		}
		sr := -1
		if e.src != nil {
			sr = e.src.id
		}
		fmt.Fprintf(&sig, "%d:%d:%s:%d:%d:%d:%d:%d;", e.id, e.th, e.kind, e.obj, e.n, p, m, sr)
	}
	sig.WriteString(cond.S)
	key := sig.String()
	if i.schedCache[key] {
		i.schedHits++
		return smt.Unsat, nil, nil
	}
	defer func() {}()
	s.Push()
	i.scheduleConstraints()
	s.Assert(cond)
	r := s.Check()
	i.res.Queries++
	i.schedQ++
	var model map[string]string
	var order []string
	if r == smt.Sat {
		model = i.readModel()
		// read the witness order of marks
		var vars []*smt.Term
		rel, _ := i.relevantEvents()
		for _, e := range rel {
			vars = append(vars, tsVar(e))
		}
		if mv, err := s.Model(vars); err == nil {
			type te struct {
				t int64
				e *event
			}
			var tl []te
			for _, e := range rel {
				tl = append(tl, te{mv[tsVar(e).S].I, e})
			}
			for a := 1; a < len(tl); a++ {
				for b := a; b > 0 && tl[b].t < tl[b-1].t; b-- {
					tl[b], tl[b-1] = tl[b-1], tl[b]
				}
			}
			for _, x := range tl {
				if x.e.kind == "mark" || x.e.kind == "read" || x.e.kind == "write" {
					order = append(order, fmt.Sprintf("g%d:%s:%s", x.e.th, x.e.kind, x.e.name))
				}
			}
		}
	}
	s.Pop()
	if r == smt.Unsat {
		if i.schedCache == nil {
			i.schedCache = map[string]bool{}
		}
		i.schedCache[key] = true
	}
	return r, model, order
}

func (i *interpreter) marks(name string) []*event {
	var out []*event
	for _, e := range i.events {
		if e.kind == "mark" && e.name == name {
			out = append(out, e)
		}
	}
	return out
}

// requireOrder: every mark a precedes every mark b in every schedule.
func (i *interpreter) requireOrder(a, b string) {
	for _, ea := range i.marks(a) {
		for _, eb := range i.marks(b) {
			r, model, order := i.schedQuery(smt.IntCmp("<", tsVar(eb), tsVar(ea)))
			switch r {
			case smt.Sat:
				if model == nil {
					model = map[string]string{}
				}
				model["hold:"+a] = b
				v := Violation{Kind: "order", Label: fmt.Sprintf("%s before %s", a, b), Key: fmt.Sprintf("order|%s|%s", a, b),
					Detail: "a consistent schedule runs " + b + " before " + a, Model: model, Path: append([]int{}, i.path...), Trace: order}
				i.res.Violations = append(i.res.Violations, v)
			case smt.Unknown:
				i.res.Unknowns++
				i.unknown++
			}
		}
	}
}

// requireJoined: no mark or tracked write of a spawned thread may come after
// mark ret (emitted by the caller after the call returned).
func (i *interpreter) requireJoined(ret string) {
	rets := i.marks(ret)
	if len(rets) == 0 {
		return
	}
	er := rets[len(rets)-1]
	var late []*smt.Term
	var names []string
	rel, _ := i.relevantEvents()
	for _, e := range rel {
		if e.th == er.th {
			continue
		}
		// marks and writes of a goroutine the call started count as its work; a late read alone (the conc
		// block's launcher goroutines looking at an empty member list) cannot affect anybody
		if e.kind == "mark" || e.kind == "write" {
			late = append(late, smt.IntCmp("<", tsVar(er), tsVar(e)))
			if e.kind == "mark" {
				names = append(names, e.name)
			}
		}
	}
	if len(late) == 0 {
		return
	}
	r, model, order := i.schedQuery(smt.Or(late...))
	if r == smt.Sat && os.Getenv("VCHECK_DEBUG") != "" {
		for _, e := range rel {
			pv := -1
			if e.prev != nil {
				pv = e.prev.id
			}
			fmt.Fprintf(os.Stderr, "ev %d th=%d %s obj=%d n=%d name=%s prev=%d\n", e.id, e.th, e.kind, e.obj, e.n, e.name, pv)
		}
		fmt.Fprintf(os.Stderr, "witness order: %v\n", order)
	}
	switch r {
	case smt.Sat:
		if model == nil {
			model = map[string]string{}
		}
		for _, n := range names {
			if n != ret {
				model["hold:"+n] = ret
			}
		}
		v := Violation{Kind: "join", Label: "spawned work finished before return", Key: "join|" + ret,
			Detail: "a consistent schedule has goroutine activity after the call returned", Model: model, Path: append([]int{}, i.path...), Trace: order}
		i.res.Violations = append(i.res.Violations, v)
	case smt.Unknown:
		i.res.Unknowns++
		i.unknown++
	}
}

// RacePair describes a satisfiable adjacency of two conflicting accesses.
type racePair struct {
	loc   string
	a, b  *event
	model map[string]string
	order []string
}

// findRaces checks every conflicting pair of accesses to tracked locations.
func (i *interpreter) findRaces(filter func(loc string) bool) []racePair {
	var out []racePair
	byLoc := map[int][]*event{}
	for _, e := range i.events {
		if e.kind == "read" || e.kind == "write" {
			byLoc[e.obj] = append(byLoc[e.obj], e)
		}
	}
	seen := map[string]bool{}
	// cheap pre-filter: pairs ordered by program order, spawn and channel hand-off in every schedule
	spawnOf := map[int]*event{}
	for _, e := range i.events {
		if e.kind == "spawn" {
			spawnOf[e.obj] = e
		}
	}
	var before func(x, y *event, depth int) bool
	before = func(x, y *event, depth int) bool {
		// is x an ancestor of y?
		for cur := y; cur != nil; {
			if cur == x {
				return true
			}
			if cur.th == x.th {
				return cur.id > x.id
			}
			if cur.kind == "chrecv" && cur.src != nil && depth < 8 && before(x, cur.src, depth+1) {
				return true
			}
			if cur.kind == "begin" {
				cur = spawnOf[cur.th]
				continue
			}
			cur = cur.prev
		}
		return false
	}
	for _, evs := range byLoc {
		for a := 0; a < len(evs); a++ {
			for b := a + 1; b < len(evs); b++ {
				x, y := evs[a], evs[b]
				if x.th == y.th || (x.kind == "read" && y.kind == "read") {
					continue
				}
				if filter != nil && !filter(x.name) {
					continue
				}
				if commonLock(x.locks, y.locks) {
					continue // both inside critical sections of one mutex: never adjacent
				}
				if before(x, y, 0) || before(y, x, 0) {
					continue // ordered in every schedule
				}
				key := fmt.Sprintf("%s|%s:%s|%s:%s", locBase(x.name), x.kind, x.fn, y.kind, y.fn)
				if seen[key] {
					continue
				}
				adj := smt.Or(
					smt.Eq(tsVar(y), smt.IntBin("+", tsVar(x), smt.IntConst(1))),
					smt.Eq(tsVar(x), smt.IntBin("+", tsVar(y), smt.IntConst(1))))
				r, model, order := i.schedQuery(adj)
				if r == smt.Sat {
					seen[key] = true
					out = append(out, racePair{loc: x.name, a: x, b: y, model: model, order: order})
				} else if r == smt.Unknown {
					i.res.Unknowns++
					i.unknown++
					if os.Getenv("VCHECK_DEBUG") != "" {
						fmt.Fprintf(os.Stderr, "race query unknown (%s vs %s on %s): %s\n", x.fn, y.fn, x.name, i.solver.LastError)
					}
				}
			}
		}
	}
	return out
}

func commonLock(a, b []int) bool {
	for _, x := range a {
		for _, y := range b {
			if x == y {
				return true
			}
		}
	}
	return false
}

func locBase(name string) string {
	if k := strings.IndexAny(name, "@#"); k >= 0 {
		return name[:k]
	}
	return name
}
