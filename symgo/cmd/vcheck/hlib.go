package main

import (
	"fmt"
	"sort"
	"strings"
)

// hlibSrc is Go source shared by the generated harness packages (package
// clause and imports are added by libFile).
const hlibBody = `
// rulesText builds n rules r0..r(n-1). Every rule emits a start event, fails
// with a division by zero when its flag f<i> is true, optionally returns, and
// emits an end event.
func rulesText(n int, sal []int64) string {
	t := ""
	for i := 0; i < n; i++ {
		t += oneRule(i, sal[i], "")
	}
	return t
}

func oneRule(i int, sal int64, extra string) string {
	k := strconv.Itoa(i)
	return "rule \"r" + k + "\" \"d" + k + "\" salience " + vnd.SalText(sal) + "\nbegin\n" +
		" ev(\"r" + k + ".s\")\n" + extra +
		" if f" + k + " {\n  z = one / zero\n }\n" +
		" ev(\"r" + k + ".e\")\nend\n"
}

// newDC returns a data context with the event hook, the fault operands and
// the fail flags injected.
func newDC(f []bool) *context.DataContext {
	dc := context.NewDataContext()
	dc.Add("ev", func(s string) { vnd.Event(s) })
	dc.Add("one", int64(1))
	dc.Add("zero", int64(0))
	for i := range f {
		dc.Add("f"+strconv.Itoa(i), f[i])
	}
	return dc
}

func symSal(n int) []int64 {
	s := make([]int64, n)
	for i := range s {
		s[i] = vnd.Int64("s" + strconv.Itoa(i))
	}
	return s
}

func symFlags(prefix string, n int) []bool {
	f := make([]bool, n)
	for i := range f {
		f[i] = vnd.Bool(prefix + strconv.Itoa(i))
	}
	return f
}

func sname(i int) string { return "r" + strconv.Itoa(i) + ".s" }
func ename(i int) string { return "r" + strconv.Itoa(i) + ".e" }

// startOrder lists the rule indices in the order of their start events.
func startOrder(tr []string, n int) []int {
	var ord []int
	for _, e := range tr {
		for i := 0; i < n; i++ {
			if e == sname(i) {
				ord = append(ord, i)
			}
		}
	}
	return ord
}

func indexOf(xs []int, x int) int {
	for k, y := range xs {
		if y == x {
			return k
		}
	}
	return -1
}

// checkOneAtATime: the trace is s,e,s,e,... with e missing exactly for
// failing rules; no rule starts twice.
func checkOneAtATime(tr []string, n int, f []bool) {
	pos := 0
	seen := make([]bool, n)
	for pos < len(tr) {
		i := -1
		for k := 0; k < n; k++ {
			if tr[pos] == sname(k) {
				i = k
			}
		}
		vnd.Assert(i >= 0, "trace: a start event where one is due")
		if i < 0 {
			return
		}
		vnd.Assert(!seen[i], "no rule starts twice")
		seen[i] = true
		pos++
		ended := pos < len(tr) && tr[pos] == ename(i)
		vnd.Assert(vnd.Iff(ended, !f[i]), "a rule ends iff it does not fail, before the next starts")
		if ended {
			pos++
		}
	}
}

// checkSorted is the oracle of the sort model over a given candidate set
// (cand[i] = rule i is supposed to run).
func checkSorted(tr []string, n int, cand []bool, s []int64, f []bool, b bool, err error) {
	ord := startOrder(tr, n)
	checkOneAtATime(tr, n, f)
	for _, i := range ord {
		vnd.Assert(cand[i], "only candidate rules run")
	}
	for k := 0; k+1 < len(ord); k++ {
		vnd.Assert(s[ord[k]] >= s[ord[k+1]], "non-increasing salience order")
	}
	anyFail := false
	for _, i := range ord {
		anyFail = vnd.Or(anyFail, f[i])
	}
	vnd.Assert(vnd.Iff(err != nil, anyFail), "error iff an executed rule failed")
	missing := 0
	for i := 0; i < n; i++ {
		if cand[i] && indexOf(ord, i) < 0 {
			missing++
		}
	}
	if len(ord) == 0 {
		vnd.Assert(false, "at least one rule runs")
		return
	}
	if missing > 0 {
		// something did not run: only allowed with stop-on-error after a failure
		last := ord[len(ord)-1]
		vnd.Assert(vnd.And(!b, f[last]), "rules are skipped only after a failure under stop-on-error")
		for k := 0; k+1 < len(ord); k++ {
			vnd.Assert(!f[ord[k]], "execution stops at the first failure")
		}
		for i := 0; i < n; i++ {
			if cand[i] && indexOf(ord, i) < 0 {
				vnd.Assert(s[last] >= s[i], "skipped rules come later in priority order")
			}
		}
	} else {
		// everything ran: under stop-on-error no rule but the last may have failed
		for k := 0; k+1 < len(ord); k++ {
			vnd.Assert(vnd.Or(b, !f[ord[k]]), "stop-on-error stops at the first failure")
		}
	}
}

func allTrue(n int) []bool {
	c := make([]bool, n)
	for i := range c {
		c[i] = true
	}
	return c
}

func must(err error, what string) {
	if err != nil {
		vnd.Assert(false, what+" must succeed")
	}
}
`

func libFile(pkg string, extraImports ...string) string {
	imps := []string{
		`"strconv"`,
		`"github.com/bilibili/gengine/context"`,
		`"github.com/bilibili/gengine/zz_verif/vnd"`,
	}
	imps = append(imps, extraImports...)
	sort.Strings(imps)
	return "package " + pkg + "\n\nimport (\n\t" + strings.Join(imps, "\n\t") + "\n)\n\nvar _ = strconv.Itoa\nvar _ = context.NewDataContext\n" + hlibBody
}

// testFile generates the native replay entry point.
func testFile(pkg string, insts []Instance) string {
	var b strings.Builder
	b.WriteString("package " + pkg + "\n\nimport (\n\t\"os\"\n\t\"testing\"\n)\n\nvar zzRegistry = map[string]func(){\n")
	for _, in := range insts {
		fmt.Fprintf(&b, "\t%q: %s,\n", in.Func, in.Func)
	}
	b.WriteString("}\n\nfunc TestReplay(t *testing.T) {\n\tf := zzRegistry[os.Getenv(\"VND_INSTANCE\")]\n\tif f == nil {\n\t\tt.Skip(\"no instance\")\n\t}\n\tf()\n}\n")
	return b.String()
}
