package main

import (
	"fmt"
	"sort"
	"strings"
)

// hlibSrc is Go source shared by the generated harness packages (package
// clause and imports are added by libFile).
const hlibBody = `
// rulesText builds n rules r0..r(n-1). Every rule emits a start event, fails
// with a division by zero when its flag f<i> is true, optionally returns, and
// emits an end event.
func rulesText(n int, sal []int64) string {
	t := ""
	for i := 0; i < n; i++ {
		t += oneRule(i, sal[i], "")
	}
	return t
}

func oneRule(i int, sal int64, extra string) string {
	k := strconv.Itoa(i)
	return "rule \"r" + k + "\" \"d" + k + "\" salience " + vnd.SalText(sal) + "\nbegin\n" +
		" ev(\"r" + k + ".s\")\n" + extra +
		" if f" + k + " {\n  z = one / zero\n }\n" +
		" ev(\"r" + k + ".e\")\nend\n"
}

// rulesTextOpt is rulesText with optional statements before the fault, chosen
// by letters: g = "if g<i> { return v<i> }", q = "if q<i> { return one / zero }",
// h = "if h<i> { return }", t = "if t<i> { stag.StopTag = true }", r = the rule fails through an
// integer used as a condition (no node-level recover) when f<i> holds.
func rulesTextOpt(n int, sal []int64, opts string) string {
	t := ""
	for i := 0; i < n; i++ {
		k := strconv.Itoa(i)
		extra := ""
		for _, o := range opts {
			switch o {
			case 'g':
				extra += " if g" + k + " {\n  return v" + k + "\n }\n"
			case 'q':
				extra += " if q" + k + " {\n  return one / zero\n }\n"
			case 'h':
				extra += " if h" + k + " {\n  return\n }\n"
			case 't':
				extra += " if t" + k + " {\n  stag.StopTag = true\n }\n"
			case 'r':
				// a fault only the rule-level recover catches (an integer as condition) instead of the division
				extra += " if f" + k + " {\n  if one {\n   z = 1\n  }\n }\n"
			}
		}
		t += oneRule(i, sal[i], extra)
	}
	return t
}

func addFlags(dc *context.DataContext, prefix string, f []bool) {
	for i := range f {
		dc.Add(prefix+strconv.Itoa(i), f[i])
	}
}

func addVals(dc *context.DataContext, prefix string, v []int64) {
	for i := range v {
		dc.Add(prefix+strconv.Itoa(i), v[i])
	}
}

func symVals(prefix string, n int) []int64 {
	v := make([]int64, n)
	for i := range v {
		v[i] = vnd.Int64(prefix + strconv.Itoa(i))
	}
	return v
}

// buildText compiles a given text on a fresh builder over dc.
func buildText(dc *context.DataContext, text string) *builder.RuleBuilder {
	rb := builder.NewRuleBuilder(dc)
	vnd.ExploreMapOrder(true)
	err := rb.BuildRuleFromString(text)
	vnd.ExploreMapOrder(false)
	must(err, "build")
	return rb
}

// buildTextPlain compiles without exploring map iteration orders (used where
// saliences are assumed distinct, so that the order is unique anyway).
func buildTextPlain(dc *context.DataContext, text string) *builder.RuleBuilder {
	rb := builder.NewRuleBuilder(dc)
	must(rb.BuildRuleFromString(text), "build")
	return rb
}

func assumeDistinct(s []int64) {
	for i := range s {
		for j := i + 1; j < len(s); j++ {
			vnd.Assume(s[i] != s[j])
		}
	}
}

func fixedSal(n int) []int64 {
	s := make([]int64, n)
	for i := range s {
		s[i] = int64(10 * (n - i))
	}
	return s
}

// rulesTextRetFail: every rule ends with "return one / z<i>" at top level, so it
// fails through its return expression iff z<i> is zero.
func rulesTextRetFail(n int, sal []int64) string {
	t := ""
	for i := 0; i < n; i++ {
		k := strconv.Itoa(i)
		t += "rule \"r" + k + "\" salience " + vnd.SalText(sal[i]) + "\nbegin\n ev(\"r" + k + ".s\")\n return one / z" + k + "\nend\n"
	}
	return t
}

// newDC returns a data context with the event hook, the fault operands and
// the fail flags injected.
// rules whose only possible failure is the expression of their top-level return (a division by dv<i>)
func returnFaultDC(n int, f []bool) *context.DataContext {
	dc := newDC(allFalse(n))
	for i := 0; i < n; i++ {
		dv := int64(1)
		if f[i] {
			dv = 0
		}
		dc.Add("dv"+itoa(i), dv)
	}
	return dc
}

func returnFaultText(n int, s []int64) string {
	text := ""
	for i := 0; i < n; i++ {
		k := itoa(i)
		text += "rule \"r" + k + "\" salience " + vnd.SalText(s[i]) + "\nbegin\n ev(\"r" + k + ".s\")\n ev(\"r" + k + ".e\")\n return one / dv" + k + "\nend\n"
	}
	return text
}

func newDC(f []bool) *context.DataContext {
	dc := context.NewDataContext()
	dc.Add("ev", func(s string) { vnd.Event(s) })
	dc.Add("one", int64(1))
	dc.Add("zero", int64(0))
	for i := range f {
		dc.Add("f"+strconv.Itoa(i), f[i])
	}
	return dc
}

func symSal(n int) []int64 {
	s := make([]int64, n)
	for i := range s {
		s[i] = vnd.Int64("s" + strconv.Itoa(i))
	}
	return s
}

func symFlags(prefix string, n int) []bool {
	f := make([]bool, n)
	for i := range f {
		f[i] = vnd.Bool(prefix + strconv.Itoa(i))
	}
	return f
}

func sname(i int) string { return "r" + strconv.Itoa(i) + ".s" }
func ename(i int) string { return "r" + strconv.Itoa(i) + ".e" }

// startOrder lists the rule indices in the order of their start events.
func startOrder(tr []string, n int) []int {
	var ord []int
	for _, e := range tr {
		for i := 0; i < n; i++ {
			if e == sname(i) {
				ord = append(ord, i)
			}
		}
	}
	return ord
}

func indexOf(xs []int, x int) int {
	for k, y := range xs {
		if y == x {
			return k
		}
	}
	return -1
}

// checkOneAtATime: the trace is s,e,s,e,... with e missing exactly for
// failing rules; no rule starts twice.
func checkOneAtATime(all []string, n int, f []bool) {
	var tr []string
	for _, e := range all {
		for k := 0; k < n; k++ {
			if e == sname(k) || e == ename(k) {
				tr = append(tr, e)
			}
		}
	}
	pos := 0
	seen := make([]bool, n)
	for pos < len(tr) {
		i := -1
		for k := 0; k < n; k++ {
			if tr[pos] == sname(k) {
				i = k
			}
		}
		vnd.Assert(i >= 0, "trace: a start event where one is due")
		if i < 0 {
			return
		}
		vnd.Assert(!seen[i], "no rule starts twice")
		seen[i] = true
		pos++
		ended := pos < len(tr) && tr[pos] == ename(i)
		vnd.Assert(vnd.Iff(ended, !f[i]), "a rule ends iff it does not fail, before the next starts")
		if ended {
			pos++
		}
	}
}

// checkSorted is the oracle of the sort model over a given candidate set
// (cand[i] = rule i is supposed to run).
func checkSorted(tr []string, n int, cand []bool, s []int64, f []bool, b bool, err error) {
	ord := startOrder(tr, n)
	checkOneAtATime(tr, n, f)
	for _, i := range ord {
		vnd.Assert(cand[i], "only candidate rules run")
	}
	for k := 0; k+1 < len(ord); k++ {
		vnd.Assert(s[ord[k]] >= s[ord[k+1]], "non-increasing salience order")
	}
	anyFail := false
	for _, i := range ord {
		anyFail = vnd.Or(anyFail, f[i])
	}
	vnd.Assert(vnd.Iff(err != nil, anyFail), "error iff an executed rule failed")
	missing := 0
	for i := 0; i < n; i++ {
		if cand[i] && indexOf(ord, i) < 0 {
			missing++
		}
	}
	if len(ord) == 0 {
		vnd.Assert(false, "at least one rule runs")
		return
	}
	if missing > 0 {
		// something did not run: only allowed with stop-on-error after a failure
		last := ord[len(ord)-1]
		vnd.Assert(vnd.And(!b, f[last]), "rules are skipped only after a failure under stop-on-error")
		for k := 0; k+1 < len(ord); k++ {
			vnd.Assert(!f[ord[k]], "execution stops at the first failure")
		}
		for i := 0; i < n; i++ {
			if cand[i] && indexOf(ord, i) < 0 {
				vnd.Assert(s[last] >= s[i], "skipped rules come later in priority order")
			}
		}
	} else {
		// everything ran: under stop-on-error no rule but the last may have failed
		for k := 0; k+1 < len(ord); k++ {
			vnd.Assert(vnd.Or(b, !f[ord[k]]), "stop-on-error stops at the first failure")
		}
	}
}

// build compiles n rules with symbolic saliences, exploring the iteration
// order of the parsed rule map.
func build(n int, s []int64, f []bool) *builder.RuleBuilder {
	rb := builder.NewRuleBuilder(newDC(f))
	vnd.ExploreMapOrder(true)
	err := rb.BuildRuleFromString(rulesText(n, s))
	vnd.ExploreMapOrder(false)
	must(err, "build")
	return rb
}

// checkTwoStage is the oracle of the staged models. Stage one = the first n1
// started rules, stage two = the following ones (any deviation from the
// barrier shows up in the order queries and in the salience assertions).
// sorted1/sorted2 tell which stage runs sequentially in priority order; b is
// the error policy (false = stop on error).
func checkTwoStage(tr []string, n, n1, n2 int, sorted1, sorted2 bool, s []int64, f []bool, b bool, err error) {
	checkTwoStageCand(tr, n, allTrue(n), n1, n2, sorted1, sorted2, s, f, b, err)
}

// checkTwoStageCand restricts the oracle to the candidate (selected) rules.
func checkTwoStageCand(tr []string, n int, cand []bool, n1, n2 int, sorted1, sorted2 bool, s []int64, f []bool, b bool, err error) {
	ord := startOrder(tr, n)
	for _, i := range ord {
		vnd.Assert(cand[i], "only candidate rules run")
	}
	k := len(ord)
	for i := 0; i < n; i++ {
		vnd.Assert(vnd.Count(sname(i)) <= 1, "no rule starts twice")
		vnd.Assert(vnd.Count(ename(i)) <= 1, "no rule ends twice")
	}
	if k == 0 {
		vnd.Assert(false, "at least one rule runs")
		return
	}
	vnd.Assert(k <= n1+n2, "at most N+M rules run")
	if k > n1+n2 {
		return
	}
	// barrier and join, decided over every schedule
	for a := 0; a < k && a < n1; a++ {
		for c := n1; c < k; c++ {
			if vnd.Count(ename(ord[a])) > 0 {
				vnd.RequireOrder(ename(ord[a]), sname(ord[c]))
			} else {
				vnd.RequireOrder(sname(ord[a]), sname(ord[c]))
			}
		}
	}
	vnd.RequireJoined("ret")
	vnd.NoRaces("var:")
	vnd.NoRaces("engine.Gengine.returnResult")
	vnd.StopIfViolated()
	for _, i := range ord {
		vnd.Assert(vnd.Iff(vnd.Count(ename(i)) == 1, !f[i]), "a rule ends iff it does not fail")
	}
	// window and stage membership by priority
	for _, i := range ord {
		for j := 0; j < n; j++ {
			if cand[j] && indexOf(ord, j) < 0 {
				vnd.Assert(s[i] >= s[j], "rules that run outrank rules that do not")
			}
		}
	}
	for a := 0; a < k && a < n1; a++ {
		for c := n1; c < k; c++ {
			vnd.Assert(s[ord[a]] >= s[ord[c]], "stage one outranks stage two")
		}
	}
	anyFail := false
	for _, i := range ord {
		anyFail = vnd.Or(anyFail, f[i])
	}
	vnd.Assert(vnd.Iff(err != nil, anyFail), "error iff an executed rule failed")
	seqStage := func(from, to int, stop bool) {
		// rules ord[from:to] ran sequentially in priority order
		for t := from; t+1 < to; t++ {
			vnd.Assert(s[ord[t]] >= s[ord[t+1]], "sorted stage in non-increasing salience order")
			if stop {
				vnd.Assert(!f[ord[t]], "stop-on-error: the sorted stage stops at its first failure")
			}
		}
	}
	if k < n1 {
		// stage one incomplete: only a sorted stage under stop-on-error stops early
		vnd.Assert(sorted1, "a concurrent stage runs all its rules")
		vnd.Assert(vnd.And(!b, f[ord[k-1]]), "stage one is cut short only by a failure under stop-on-error")
		seqStage(0, k, true)
		return
	}
	fail1 := false
	for t := 0; t < n1; t++ {
		fail1 = vnd.Or(fail1, f[ord[t]])
	}
	if sorted1 {
		for t := 0; t+1 < n1; t++ {
			vnd.Assert(s[ord[t]] >= s[ord[t+1]], "sorted stage in non-increasing salience order")
			vnd.Assert(vnd.Or(b, !f[ord[t]]), "stop-on-error: the sorted stage stops at its first failure")
		}
	}
	if k == n1 {
		if n2 > 0 {
			vnd.Assert(vnd.And(!b, fail1), "stage two is skipped only after a failure under stop-on-error")
		}
		return
	}
	vnd.Assert(vnd.Or(b, !fail1), "stage two runs only if stage one succeeded or errors are tolerated")
	if sorted2 {
		if k < n1+n2 {
			vnd.Assert(vnd.And(!b, f[ord[k-1]]), "stage two is cut short only by a failure under stop-on-error")
			seqStage(n1, k, true)
		} else {
			for t := n1; t+1 < k; t++ {
				vnd.Assert(s[ord[t]] >= s[ord[t+1]], "sorted stage in non-increasing salience order")
				vnd.Assert(vnd.Or(b, !f[ord[t]]), "stop-on-error: the sorted stage stops at its first failure")
			}
		}
	} else {
		vnd.Assert(k == n1+n2, "a concurrent stage runs all its rules")
	}
}

func countsOf(n int) []int {
	c := make([]int, n)
	for i := range c {
		c[i] = vnd.Count(sname(i))
	}
	return c
}

// checkResult: the result map holds exactly the rules that ran (since base)
// and reached a return. Rule bodies test g (return v), q (failing return
// expression), h (bare return), f (fault) in this order.
func checkResult(res map[string]interface{}, n int, base []int, g, q, h, f []bool, v []int64) {
	extra := len(res)
	for i := 0; i < n; i++ {
		ran := vnd.Count(sname(i)) - base[i]
		x, has := res["r"+strconv.Itoa(i)]
		if ran == 0 {
			vnd.Assert(!has, "a rule that did not run has no entry")
			continue
		}
		vnd.Assert(ran == 1, "a rule runs at most once")
		wantHas := vnd.Or(g[i], vnd.And(!q[i], h[i]))
		vnd.Assert(vnd.Iff(has, wantHas), "entry iff the rule reached a return")
		if has {
			extra--
			if x == nil {
				vnd.Assert(vnd.And(!g[i], h[i]), "nil only for a bare return")
			} else {
				y, ok := x.(int64)
				vnd.Assert(ok, "returned value type")
				vnd.Assert(vnd.And(g[i], y == v[i]), "returned value")
			}
		}
	}
	vnd.Assert(extra == 0, "no foreign or stale entries")
}

func allFalse(n int) []bool { return make([]bool, n) }

// checkAsGiven: rules run one at a time in exactly the given order (indices
// of the existing named rules), stopping at the first failure under
// stop-on-error or after a rule that set the stop tag (t may be nil).
func checkAsGiven(tr []string, n int, want []int, t, f []bool, b bool, err error) {
	ord := startOrder(tr, n)
	checkOneAtATime(tr, n, f)
	vnd.Assert(len(ord) <= len(want), "no more rules than named")
	for k := range ord {
		if k < len(want) {
			vnd.Assert(ord[k] == want[k], "rules run in the caller's order")
		}
	}
	checkStops(ord, len(want), t, f, b, err)
}

// checkStops: the started prefix ord of a sequential run over total rules is
// consistent with the error policy and the stop tag.
func checkStops(ord []int, total int, t, f []bool, b bool, err error) {
	if len(ord) == 0 {
		vnd.Assert(total == 0, "at least one rule runs")
		return
	}
	tag := func(i int) bool {
		if t == nil {
			return false
		}
		return t[i]
	}
	anyFail := false
	for _, i := range ord {
		anyFail = vnd.Or(anyFail, f[i])
	}
	vnd.Assert(vnd.Iff(err != nil, anyFail), "error iff an executed rule failed")
	for k := 0; k+1 < len(ord); k++ {
		vnd.Assert(!tag(ord[k]), "no rule starts after the stop tag was set")
		vnd.Assert(vnd.Or(b, !f[ord[k]]), "stop-on-error stops at the first failure")
	}
	if len(ord) < total {
		last := ord[len(ord)-1]
		vnd.Assert(vnd.Or(tag(last), vnd.And(!b, f[last])), "rules are skipped only after the stop tag or a failure under stop-on-error")
	}
}

// checkSortedTag: sort model over the candidates with a stop tag.
func checkSortedTag(tr []string, n int, cand []bool, s []int64, t, f []bool, b bool, err error) {
	checkOneAtATime(tr, n, f)
	checkSortedStarts(tr, n, cand, s, t, f, b, err)
}

// checkSortedStarts is checkSortedTag on start events only.
func checkSortedStarts(tr []string, n int, cand []bool, s []int64, t, f []bool, b bool, err error) {
	ord := startOrder(tr, n)
	total := 0
	for i := 0; i < n; i++ {
		if cand[i] {
			total++
		}
	}
	for _, i := range ord {
		vnd.Assert(cand[i], "only candidate rules run")
	}
	for k := 0; k+1 < len(ord); k++ {
		vnd.Assert(s[ord[k]] >= s[ord[k+1]], "non-increasing salience order")
	}
	for _, i := range ord {
		for j := 0; j < n; j++ {
			if cand[j] && indexOf(ord, j) < 0 {
				vnd.Assert(s[i] >= s[j], "skipped rules come later in priority order")
			}
		}
	}
	checkStops(ord, total, t, f, b, err)
}

// checkDAG: layers (indices of existing rules, each rule in at most one
// layer, possibly repeated inside its layer) run as barriers; a failing layer
// stops the rest.
func checkDAG(n int, layers [][]int, f []bool, err error) {
	stopped := false
	anyFail := false
	var prev []int
	for _, layer := range layers {
		occ := make([]int, n)
		for _, i := range layer {
			occ[i]++
		}
		ranAll, ranNone := true, true
		for i := 0; i < n; i++ {
			if occ[i] > 0 {
				c := vnd.Count(sname(i))
				if c != occ[i] {
					ranAll = false
				}
				if c != 0 {
					ranNone = false
				}
			}
		}
		if len(layer) > 0 {
			vnd.Assert(vnd.Implies(vnd.Not(stopped), ranAll), "every rule of a layer runs once per occurrence while no earlier layer failed")
			vnd.Assert(vnd.Implies(stopped, ranNone), "no layer starts after a failing layer")
		}
		if ranAll && len(layer) > 0 {
			for _, i := range prev {
				for _, j := range layer {
					if vnd.Count(ename(i)) > 0 {
						vnd.RequireOrder(ename(i), sname(j))
					} else {
						vnd.RequireOrder(sname(i), sname(j))
					}
				}
			}
			failHere := false
			for _, i := range layer {
				failHere = vnd.Or(failHere, f[i])
			}
			anyFail = vnd.Or(anyFail, vnd.And(vnd.Not(stopped), failHere))
			stopped = vnd.Or(stopped, failHere)
			prev = layer
		}
	}
	vnd.RequireJoined("ret")
	vnd.NoRaces("var:")
	vnd.NoRaces("engine.Gengine.returnResult")
	vnd.StopIfViolated()
	vnd.Assert(vnd.Iff(err != nil, anyFail), "error iff a rule of a started layer failed")
	for i := 0; i < n; i++ {
		inDag := false
		for _, layer := range layers {
			if indexOf(layer, i) >= 0 {
				inDag = true
			}
		}
		if !inDag {
			vnd.Assert(vnd.Count(sname(i)) == 0, "rules outside the DAG never run")
		}
	}
}

func nothingRan(n int, err error) {
	vnd.Assert(err != nil, "the call fails")
	for i := 0; i < n; i++ {
		vnd.Assert(vnd.Count(sname(i)) == 0, "nothing runs")
	}
}

func allTrue(n int) []bool {
	c := make([]bool, n)
	for i := range c {
		c[i] = true
	}
	return c
}

func itoa(i int) string { return strconv.Itoa(i) }

// countSince counts the events called name logged after position mark of the trace.
func countSince(mark int, name string) int {
	c := 0
	for _, e := range vnd.Trace()[mark:] {
		if e == name {
			c++
		}
	}
	return c
}

func must(err error, what string) {
	if err != nil {
		vnd.Assert(false, what+" must succeed")
	}
}
`

func libFile(pkg string, extraImports ...string) string {
	imps := []string{
		`"strconv"`,
		`"github.com/bilibili/gengine/builder"`,
		`"github.com/bilibili/gengine/context"`,
		`"github.com/bilibili/gengine/zz_verif/vnd"`,
	}
	imps = append(imps, extraImports...)
	sort.Strings(imps)
	return "package " + pkg + "\n\nimport (\n\t" + strings.Join(imps, "\n\t") + "\n)\n\nvar _ = strconv.Itoa\nvar _ = context.NewDataContext\n" + hlibBody
}

// testFile generates the native replay entry point.
func testFile(pkg string, insts []Instance) string {
	var b strings.Builder
	b.WriteString("package " + pkg + "\n\nimport (\n\t\"os\"\n\t\"testing\"\n)\n\nvar zzRegistry = map[string]func(){\n")
	for _, in := range insts {
		fmt.Fprintf(&b, "\t%q: %s,\n", in.Func, in.Func)
	}
	b.WriteString("}\n\nfunc TestReplay(t *testing.T) {\n\tf := zzRegistry[os.Getenv(\"VND_INSTANCE\")]\n\tif f == nil {\n\t\tt.Skip(\"no instance\")\n\t}\n\tf()\n}\n")
	return b.String()
}
