package main

import (
	"fmt"
	"strings"

	"symgo/interp"
)

func init() {
	generators["C09"] = genC09
	generators["C20"] = genC20
}

// ---- fault table shared by C09 (containment) and C20 (line numbers) ---------

type exprFault struct {
	id      string
	expr    string // faulty expression
	isBool  bool   // expression is boolean-typed
	healthy string // Go condition (possibly symbolic) under which it does NOT fault
	class   string // arithmetic, compare, logic, call, name, nil, index, kind
}

var exprFaults = []exprFault{
	{"zerodiv", "one / z", false, "z != 0", "arithmetic"},
	{"missing", "nosuch + 1", false, "false", "name"},
	{"notint", "!x", true, "false", "kind"},
	{"strplus", "s + 1", false, "false", "arithmetic"},
	{"strless", "s < 1", true, "false", "compare"},
	{"intand", "x && b", true, "false", "logic"},
	{"cyclicor", "cyc || b", true, "false", "logic"},
	{"ifaceadd", "fi() + 1", false, "false", "arithmetic"},
	{"boom", "boom()", false, "false", "call"},
	{"boomint", "boomint()", false, "false", "call"},
	{"boomstruct", "boomstruct()", false, "false", "call"},
	{"boomslice", "d.BoomSlice()", false, "false", "call"},
	{"noargs", "f1()", false, "false", "call"},
	{"strarg", "f1(\"s\")", false, "false", "call"},
	{"nilfield", "np.I", false, "!npnil", "nil"},
	{"nilfield2", "d.P.A", false, "!pnil", "nil"},
	{"nilmethod", "d.P.Get(1)", false, "!pnil", "call"},
	{"index", "d.SL[ix]", false, "vnd.And(ix >= 0, ix < 3)", "index"},
	{"nomethod", "d.Nosuch()", false, "false", "call"},
	{"nofunc", "nosuch(1)", false, "false", "call"},
	{"missingline", "deadline + 1", false, "false", "name"},
	{"lateroot", "late.I", false, "!lm", "name"},
	{"lateroot2", "late.P.A", false, "!lm", "name"},
}

// a position template: lines with %E; isStmt templates hold the fault themselves.
type faultPos struct {
	id       string
	numeric  string // template when the expression is numeric
	boolean  string // template when the expression is boolean
	mustCite bool   // position is an assignment or a call (always cites)
}

var faultPositions = []faultPos{
	{"assign", " y = %E", " y = %E", true},
	{"if", " if %E == 1 {\n  y = 1\n }", " if %E {\n  y = 1\n }", false},
	{"elseif", " if x == 99 {\n  y = 1\n } else if %E == 1 {\n  y = 2\n }", " if x == 99 {\n  y = 1\n } else if %E {\n  y = 2\n }", false},
	{"forinit", " for i = %E; i < 1; i += 1 {\n }", "", true},
	{"forcond", " for i = 0; i < %E; i += 1 {\n }", " for i = 0; %E; i += 1 {\n  break\n }", false},
	{"forstep", " for i = 0; i < 1; i += %E {\n }", "", true},
	{"forbody", " for i = 0; i < 1; i += 1 {\n  y = %E\n }", " for i = 0; i < 1; i += 1 {\n  y = %E\n }", true},
	{"rangebody", " forRange k := arr {\n  y = %E\n }", " forRange k := arr {\n  y = %E\n }", true},
	{"return", " return %E", " return %E", false},
	{"arg", " f1(%E)", " fb(%E)", false},
	{"conc", " conc {\n  y = %E\n }", " conc {\n  y = %E\n }", true},
	{"concfn", " conc {\n  y = 1\n  f1(%E)\n }", " conc {\n  y = 1\n  fb(%E)\n }", false},
	{"concmeth", " conc {\n  d.PM(%E)\n  y = 1\n }", " conc {\n  d.PB(%E)\n  y = 1\n }", false},
	{"conc3", " conc {\n  y = 1\n  dd.P.Get(%E)\n }", " conc {\n  y = 1\n  dd.P.GetB(%E)\n }", false},
}

type stmtFault struct {
	id       string
	text     string // statement lines; the faulty construct is on the line containing §
	healthy  string
	mustCite bool
	hang     bool
}

var stmtFaults = []stmtFault{
	{"ifint", " if x {§\n  y = 1\n }", "false", false, false},
	{"break", " break§", "false", false, false},
	{"continue", " continue§", "false", false, false},
	{"foreverfor", " for i = 0; i < 1; i += 0 {§\n }", "false", false, true},
	{"forevercontinue", " for i = 0; i >= 0; i += 1 {§\n  continue\n }", "false", false, true},
	{"foreverifcontinue", " for i = 0; i < 1; i += 0 {§\n  if x == 7 {\n   continue\n  }\n  y = 1\n }", "false", false, true},
	{"foreverbody", " for i = 0; i < 1; i += 0 {§\n  y = i\n }", "false", false, true},
	{"boomintstmt", " boomint()§", "false", true, false},
	{"boomerrstmt", " boomerr()§", "false", true, false},
	{"rangeint", " forRange k := x {§\n }", "false", false, false},
	{"rangemissing", " forRange k := nosuch {§\n }", "false", false, false},
	{"nilmapwrite", " d.NM[\"k\"] = 1§", "false", true, false},
	{"nilsliceidx", " d.NS[0] = 1§", "false", true, false},
	{"idxwrite", " d.SL[ix] = 1§", "vnd.And(ix >= 0, ix < 3)", true, false},
	{"byvalue", " x = 5§", "false", true, false},
	{"nilptrwrite", " np.I = 1§", "!npnil", true, false},
	{"nilptr2write", " d.P.A = 1§", "!pnil", true, false},
	{"nofuncstmt", " nosuch(1)§", "false", true, false},
	{"nilrecv", " np.PM(1)§", "!npnil", true, false},
	{"boomstmt", " boom()§", "false", true, false},
	{"toomany", " f1(1, 2)§", "false", true, false},
	{"fieldmissing", " d.Nofield = 1§", "false", true, false},
	{"strkeyslice", " y = d.SL[\"k\"]§", "false", true, false},
	// calls spanning several lines: the position is the line the call starts on
	{"mlmethod", " np.PM(§\n  1\n )", "!npnil", true, false},
	{"mlmethodassign", " y = np.PM(§\n  1\n )", "!npnil", true, false},
	{"mlfunc", " f1(§\n  1,\n  2\n )", "false", true, false},
	{"ml3", " d.P.Get(§\n  1\n )", "!pnil", true, false},
	// a return whose value cannot be handed out (unexported field); a forRange whose body grows the ranged slice
	{"retunexported", " return d.hidden§", "false", false, false},
	{"rangegrow", " forRange k := qq.Items {§\n  qq.Push(k)\n }", "true", false, false},
	{"rangegrowmap", " forRange k := qq.M {§\n  qq.Put(k)\n }", "true", false, false},
	// the same call text twice in one rule: the first occurrence succeeds, the second one fails
	{"repeatfn", " q = 1\n y = inv(q)\n q = z\n y = inv(q)§", "z != 0", true, false},
	{"repeatfnstmt", " q = 1\n inv(q)\n q = z\n inv(q)§", "z != 0", true, false},
	{"repeatmethod", " q = 1\n y = d.Inv(q)\n q = z\n y = d.Inv(q)§", "z != 0", true, false},
	{"repeat3", " q = 1\n dd.P.Inv(q)\n q = z\n dd.P.Inv(q)§", "z != 0", true, false},
	// constructs that fail without a position of their own, on a later line inside a for body
	{"ifint_infor", " for i = 0; i < 1; i += 1 {\n  y = 1\n  if x {§\n   y = 2\n  }\n }", "false", false, false},
	{"notint_infor", " for i = 0; i < 1; i += 1 {\n  y = 1\n  if x == 99 {\n   y = 3\n  } else if !x {§\n   y = 2\n  }\n }", "false", false, false},
}

const c09Lib = `
type In struct{ A int64 }

func (in *In) Get(a int64) int64 { return in.A + a }
func (in *In) GetB(a bool) int64 { return in.A }
func (in *In) Inv(a int64) int64 { return 100 / a }

type Queue struct {
	Items []int64
	M     map[int64]int64
}

func (q *Queue) Push(k int64) { q.Items = append(q.Items, k+100) }
func (q *Queue) Put(k int64)  { q.M[k+100] = k }

type CD struct {
	hidden int64
	I  int64
	SL []int64
	NM map[string]int64
	NS []int64
	P  *In
}

func (c *CD) PM(a int64) int64 { return c.I + a }
func (c *CD) BoomSlice() int64 { panic([]string{"a", "b"}) }
func (c *CD) Inv(a int64) int64  { return 100 / a }

type errBoom struct{}

func (errBoom) Error() string { return "boom error" }
func (c *CD) PB(a bool) int64  { return c.I }

type world struct {
	z, ix         int64
	npnil, pnil   bool
	lm            bool // the root object "late" is not injected yet
	d, np         *CD
	dc            *context.DataContext
}

// mkWorld injects the data the fault family uses; the deciding data is symbolic.
func mkWorld() *world {
	w := &world{z: vnd.Int64("z"), ix: vnd.Int64("ix"), npnil: vnd.Bool("npnil"), pnil: vnd.Bool("pnil"), lm: vnd.Bool("lm")}
	w.dc = context.NewDataContext()
	w.dc.Add("ev", func(s string) { vnd.Event(s) })
	w.dc.Add("x", int64(7))
	w.dc.Add("s", "str")
	w.dc.Add("b", true)
	w.dc.Add("one", int64(1))
	w.dc.Add("arr", []int64{1, 2})
	w.dc.Add("fi", func() interface{} { return int64(1) })
	w.dc.Add("f1", func(a int64) int64 { return a })
	w.dc.Add("fb", func(a bool) int64 { return 1 })
	w.dc.Add("inv", func(a int64) int64 { return 100 / a })
	w.dc.Add("qq", &Queue{Items: []int64{1, 2, 3}, M: map[int64]int64{1: 1, 2: 2}})
	w.dc.Add("boom", func() int64 { panic("boom") })
	w.dc.Add("boomint", func() int64 { panic(42) })
	w.dc.Add("boomstruct", func() int64 { panic(In{A: 7}) })
	w.dc.Add("boomerr", func() int64 { panic(errBoom{}) })
	w.dc.Add("dd", &CD{I: 2, P: &In{A: 1}})
	cyc := map[string]interface{}{"k": int64(1)}
	cyc["self"] = cyc // a value that contains itself: printing it in full never ends
	w.dc.Add("cyc", cyc)
	w.set(w.z, w.ix, w.npnil, w.pnil)
	if !w.lm {
		w.dc.Add("late", &CD{I: 3, P: &In{A: 4}})
	}
	return w
}

func (w *world) set(z, ix int64, npnil, pnil bool) {
	w.d = &CD{I: 1, SL: []int64{1, 2, 3}}
	if !pnil {
		w.d.P = &In{A: 5}
	}
	w.np = nil
	if !npnil {
		w.np = &CD{I: 1}
	}
	w.dc.Add("z", z)
	w.dc.Add("ix", ix)
	w.dc.Add("d", w.d)
	w.dc.Add("np", w.np)
}

func (w *world) heal() {
	w.set(1, 0, false, false)
	w.dc.Add("late", &CD{I: 3, P: &In{A: 4}})
}

const healthyText = "rule \"r0\" salience 30 begin\n ev(\"r0.s\")\n ev(\"r0.e\")\nend\nrule \"bad\" salience 20 begin\n ev(\"bad.s\")\n ev(\"bad.e\")\nend\nrule \"r2\" salience 10 begin\n ev(\"r2.s\")\n ev(\"r2.e\")\nend\n"

func compile(dc *context.DataContext, text string) *builder.RuleBuilder {
	rb := builder.NewRuleBuilder(dc)
	if e := rb.BuildRuleFromString(text); e != nil {
		vnd.Assert(false, "build must succeed")
	}
	return rb
}

// citations extracts every "line N, column" number of an error text.
func citations(msg string) []int {
	var out []int
	for i := 0; i+5 < len(msg); i++ {
		if msg[i:i+5] != "line " {
			continue
		}
		j := i + 5
		n, digits := 0, 0
		for j < len(msg) && msg[j] >= '0' && msg[j] <= '9' {
			n = n*10 + int(msg[j]-'0')
			j++
			digits++
		}
		if digits > 0 && j+8 <= len(msg) && msg[j:j+8] == ", column" {
			out = append(out, n)
		}
	}
	return out
}
`

func c09Head(pkg string) string {
	return "package " + pkg + "\n\nimport (\n\t\"github.com/bilibili/gengine/builder\"\n\t\"github.com/bilibili/gengine/context\"\n\t\"github.com/bilibili/gengine/engine\"\n\t\"github.com/bilibili/gengine/zz_verif/vnd\"\n)\n\nvar _ = engine.NewGengine\n" + c09Lib
}

// faultRule assembles the three-rule text around the faulty statement lines and
// returns it with the 1-based line of the faulty construct and the span of the
// enclosing statement.
func faultRule(stmt string) (text string, line, from, to int) {
	stmt = strings.ReplaceAll(stmt, "§", "\x00")
	head := "// rules under test\n\nrule \"r0\" salience 30 begin\n ev(\"r0.s\")\n ev(\"r0.e\")\nend\n\n// the faulty rule\nrule \"bad\" salience 20\nbegin\n ev(\"bad.s\")\n"
	tail := "\n ev(\"bad.e\")\nend\nrule \"r2\" salience 10 begin\n ev(\"r2.s\")\n ev(\"r2.e\")\nend\n"
	if strings.HasPrefix(stmt, " return") {
		tail = strings.Replace(tail, "\n ev(\"bad.e\")", "", 1) // return must be the last statement
	}
	from = strings.Count(head, "\n") + 1
	to = from + strings.Count(stmt, "\n")
	k := strings.IndexByte(stmt, 0)
	line = from
	if k >= 0 {
		line = from + strings.Count(stmt[:k], "\n")
	}
	stmt = strings.ReplaceAll(stmt, "\x00", "")
	return head + stmt + tail, line, from, to
}

type faultCase struct {
	id, text, healthy      string
	line, from, to         int
	mustCite, hang, isConc bool
	class                  string
}

func allFaultCases(tier string) []faultCase {
	var out []faultCase
	for _, f := range exprFaults {
		for _, p := range faultPositions {
			tpl := p.numeric
			if f.isBool {
				tpl = p.boolean
			}
			if tpl == "" {
				continue
			}
			if f.id == "zerodiv" && p.id == "forstep" {
				continue // a symbolic zero step makes the 10000-iteration cut-off loop symbolic: outside the bound
			}
			if tier != "thorough" && !(p.id == "assign" || p.id == "if" || p.id == "return" || strings.HasPrefix(p.id, "conc") || f.id == "zerodiv" || f.id == "ifaceadd" || f.id == "boom" || f.id == "boomint" || f.id == "index") {
				continue // quick: every fault at four positions, four faults at every position
			}
			stmt := strings.Replace(tpl, "%E", f.expr+"§", 1)
			text, line, from, to := faultRule(stmt)
			must := p.mustCite || f.class == "arithmetic" || f.class == "compare" || f.class == "logic" || f.class == "call"
			out = append(out, faultCase{id: f.id + "_" + p.id, text: text, healthy: f.healthy, line: line, from: from, to: to, mustCite: must, isConc: strings.HasPrefix(p.id, "conc"), class: f.class})
		}
	}
	for _, s := range stmtFaults {
		for _, wrap := range []string{"", "if"} {
			stmt := s.text
			id := s.id
			if wrap == "if" {
				if tier != "thorough" && !(s.id == "break" || s.id == "ifint" || s.id == "nilmapwrite" || s.id == "boomstmt") {
					continue
				}
				stmt = " if x == 7 {\n " + strings.ReplaceAll(s.text, "\n", "\n ") + "\n }"
				id += "_inif"
			}
			text, line, from, to := faultRule(stmt)
			out = append(out, faultCase{id: id, text: text, healthy: s.healthy, line: line, from: from, to: to, mustCite: s.mustCite, hang: s.hang, class: "stmt"})
		}
	}
	return out
}

func genC09(tier string, seed int64) (*Family, error) {
	pkg := "c09"
	fam := &Family{
		Prop: "C09", PkgPath: modPath + "/zz_verif/" + pkg, Files: map[string]string{},
		Bounds: map[string]interface{}{"fault_classes": len(exprFaults) + len(stmtFaults), "positions": len(faultPositions), "rules_per_set": 3, "models": "sort (both policies), stop-tag, concurrent, mix, inverse mix, three N-M, DAG, selected sorted/concurrent",
			"for_cutoff": "the never-ending for is run concretely to the engine's 10000-iteration cut-off"},
		Cfg: interp.Config{MaxSteps: 40_000_000, StepsAreHang: true},
		Functions: []string{"base.RuleEntity).Execute", "base.Assignment).Evaluate", "base.FunctionCall).Evaluate", "base.MethodCall).Evaluate", "base.ThreeLevelCall).Evaluate",
			"base.IfStmt).Evaluate", "base.ForStmt).Evaluate", "base.ForRangeStmt).Evaluate", "base.MapVar).Evaluate", "base.ConcStatement).Evaluate", "core.ParamsTypeChange"},
	}
	fam.Assumptions = []string{
		"one faulty rule between a higher- and a lower-priority healthy rule; the datum deciding whether the fault fires (divisor, index, nil-ness) is symbolic, so both continuations are explored",
		"a path that ends in an uncaught panic of any goroutine, a deadlock or the step budget is a violation (crash / deadlock / hang)",
		"injected functions terminate; reflect's panics are reproduced by the reflect model",
		"second call on the same engine with healthy data must succeed",
	}
	fam.Outside = []string{"a for step that is symbolically zero (the cut-off loop would run 10000 symbolic iterations)", "host misuse of the API (nil builder fields, nil *Stag)", "stack exhaustion by deeply nested text", "non-terminating injected functions"}
	var b strings.Builder
	models := []struct{ id, call, okRuns, policy string }{
		{"sort", "eng.Execute(rb, pol)", "sorted", "pol"},
		{"stoptag", "eng.ExecuteWithStopTagDirect(rb, pol, &engine.Stag{})", "sorted", "pol"},
		{"concurrent", "eng.ExecuteConcurrent(rb)", "all", ""},
		{"mix", "eng.ExecuteMixModel(rb)", "", ""},
		{"inverse", "eng.ExecuteInverseMixModel(rb)", "", ""},
		{"nsortmconc", "eng.ExecuteNSortMConcurrent(1, 2, rb, pol)", "", ""},
		{"nconcmsort", "eng.ExecuteNConcurrentMSort(2, 1, rb, pol)", "", ""},
		{"nconcmconc", "eng.ExecuteNConcurrentMConcurrent(1, 2, rb, pol)", "", ""},
		{"dag", "eng.ExecuteDAGModel(rb, [][]string{{\"r0\"}, {\"bad\"}, {\"r2\"}})", "", ""},
		{"dagwide", "eng.ExecuteDAGModel(rb, [][]string{{\"r0\", \"bad\", \"r2\"}})", "all", ""},
		{"selected", "eng.ExecuteSelectedRulesWithControl(rb, pol, []string{\"r2\", \"bad\", \"r0\"})", "sorted", "pol"},
		{"selconc", "eng.ExecuteSelectedRulesConcurrent(rb, []string{\"r2\", \"bad\", \"r0\"})", "all", ""},
		{"selnm", "eng.ExecuteSelectedNConcurrentMSort(2, 1, rb, pol, []string{\"r2\", \"bad\", \"r0\"})", "", ""},
	}
	for _, fc := range allFaultCases(tier) {
		if strings.HasSuffix(fc.id, "_return") {
			continue // a rule ending in return has no end event; failing returns are covered by C04 and C01
		}
		for mi, m := range models {
			if mi > 0 {
				// every fault in the sort model; in the other models the faults at the
				// assignment / statement level plus the rule-level (non call-node) ones
				if !(strings.HasSuffix(fc.id, "_assign") || strings.HasSuffix(fc.id, "_if") || strings.HasSuffix(fc.id, "_return") || fc.class == "stmt" && !strings.HasSuffix(fc.id, "_inif")) {
					continue
				}
				if fc.hang && (mi > 2 || tier != "thorough" && mi > 1) {
					continue // the 10000-iteration runs are slow: sort, stop-tag [and concurrent] only
				}
				if tier != "thorough" && mi > 2 && !(fc.id == "zerodiv_assign" || fc.id == "notint_if" || fc.id == "ifaceadd_if" || fc.id == "missing_return" || fc.id == "ifint" || fc.id == "break" || fc.id == "rangeint" || fc.id == "nilmapwrite" || fc.id == "index_assign" || fc.id == "nilfield_if") {
					continue
				}
			}
			name := "F_" + fc.id + "_" + m.id
			var oracle string
			switch m.okRuns {
			case "sorted":
				oracle = `	if vnd.Count("bad.e") == 0 {
		vnd.Assert(vnd.Count("r0.s") == 1 && vnd.Count("r0.e") == 1, "the higher-priority healthy rule ran")
		vnd.Assert(vnd.Iff(vnd.Count("r2.e") == 1, pol), "the lower-priority rule runs iff errors are tolerated")
	}
`
			case "all":
				oracle = "\tvnd.Assert(vnd.Count(\"r0.e\") == 1 && vnd.Count(\"r2.e\") == 1, \"the healthy rules ran\")\n"
			}
			fmt.Fprintf(&b, `
// fault %s in model %s
func %s() {
	w := mkWorld()
	z, ix, npnil, pnil, lm := w.z, w.ix, w.npnil, w.pnil, w.lm
	_, _, _, _, _ = z, ix, npnil, pnil, lm
	pol := vnd.Bool("pol")
	_ = pol
	rb := compile(w.dc, %q)
	rbOrig := rb
	eng := engine.NewGengine()
	err := %s
	vnd.Event("ret")
	vnd.Quiesce()
	vnd.Reach("executed")
	healthy := %s
	faulted := vnd.Count("bad.s") == 1 && vnd.Count("bad.e") == 0
	if vnd.Count("bad.s") == 1 {
		vnd.Assert(vnd.Iff(faulted, vnd.Not(healthy)), "the rule fails exactly when the fault fires")
	}
	vnd.Assert(vnd.Implies(faulted, err != nil), "a fault surfaces as a non-nil error")
	if !faulted && vnd.Count("bad.s") == 1 {
		vnd.Assert(err == nil, "no fault, no error")
	}
%s	// later calls are unaffected
	w.heal()
	rb2 := compile(w.dc, healthyText)
	c0 := vnd.Count("r2.e")
	rb = rb2
	err2 := %s
	vnd.Quiesce()
	vnd.Assert(err2 == nil, "a later healthy call on the same engine succeeds")
	vnd.Assert(vnd.Count("r2.e") == c0+1, "a later healthy call runs its rules")
	if %v {
		// the same rules on repaired data: the earlier failure leaves nothing behind
		b0 := vnd.Count("bad.e")
		rb = rbOrig
		err3 := %s
		vnd.Quiesce()
		vnd.Assert(err3 == nil, "the rule that failed succeeds once its data is repaired")
		vnd.Assert(vnd.Count("bad.e") == b0+1, "the repaired rule runs to its end")
	}
}
`, fc.id, m.id, name, fc.text, m.call, fc.healthy, oracle, m.call, fc.healthy != "false" && !fc.hang, m.call)
			fam.Instances = append(fam.Instances, Instance{Func: name, Stratum: m.id + "/" + fc.class, Desc: "fault " + fc.id + " in model " + m.id, Text: fc.text, Expect: []string{"executed"}})
		}
	}
	// a rule raises the stop tag and then faults: the fault still surfaces (all four stop-tag entry points)
	tagText := "rule \"r0\" salience 30 begin\n ev(\"r0.s\")\n ev(\"r0.e\")\nend\nrule \"bad\" salience 20 begin\n ev(\"bad.s\")\n stag.StopTag = true\n y = np.I\n ev(\"bad.e\")\nend\nrule \"r2\" salience 10 begin\n ev(\"r2.s\")\n ev(\"r2.e\")\nend\n"
	for _, m := range []struct{ id, call string }{
		{"stoptag", "eng.ExecuteWithStopTagDirect(rb, pol, stag)"},
		{"selstoptag", "eng.ExecuteSelectedRulesWithControlAndStopTag(rb, pol, stag, []string{\"r2\", \"bad\", \"r0\"})"},
		{"selstoptaggiven", "eng.ExecuteSelectedRulesWithControlAndStopTagAsGivenSortedName(rb, pol, stag, []string{\"r0\", \"bad\", \"r2\"})"},
		{"mixstoptag", "eng.ExecuteMixModelWithStopTagDirect(rb, stag)"},
	} {
		name := "FT_" + m.id
		fmt.Fprintf(&b, `
// the rule that faults has raised the stop tag first, model %s
func %s() {
	w := mkWorld()
	npnil := w.npnil
	pol := vnd.Bool("pol")
	_ = pol
	stag := &engine.Stag{}
	w.dc.Add("stag", stag)
	rb := compile(w.dc, %q)
	eng := engine.NewGengine()
	err := %s
	vnd.Event("ret")
	vnd.Quiesce()
	vnd.Reach("executed")
	if vnd.Count("bad.s") == 1 {
		vnd.Assert(vnd.Iff(vnd.Count("bad.e") == 0, npnil), "the rule fails exactly when the fault fires")
		vnd.Assert(vnd.Implies(npnil, err != nil), "a fault surfaces as a non-nil error")
	}
}
`, m.id, name, tagText, m.call)
		fam.Instances = append(fam.Instances, Instance{Func: name, Stratum: m.id + "/tag-then-fault", Desc: "stop tag raised, then a fault, model " + m.id, Text: tagText, Expect: []string{"executed"}})
	}
	// pool entry points: as many failing calls as the pool has instances, under both policies, then a healthy call
	poolText := "rule \"r0\" salience 30 begin\n ev(\"r0.s\")\n ev(\"r0.e\")\nend\nrule \"bad\" salience 20 begin\n ev(\"bad.s\")\n y = one / z\n ev(\"bad.e\")\nend\nrule \"r2\" salience 10 begin\n ev(\"r2.s\")\n ev(\"r2.e\")\nend\n"
	for _, m := range []struct{ id, call string }{
		{"Execute", "gp.Execute(data, pol)"},
		{"ExecuteWithStopTagDirect", "gp.ExecuteWithStopTagDirect(data, pol, &engine.Stag{})"},
		{"ExecuteConcurrent", "gp.ExecuteConcurrent(data)"},
		{"ExecuteSelectedRulesWithControl", "gp.ExecuteSelectedRulesWithControl(data, pol, []string{\"r0\", \"bad\", \"r2\"})"},
		{"ExecuteNSortMConcurrent", "gp.ExecuteNSortMConcurrent(2, 1, pol, data)"},
		{"ExecuteNConcurrentMSort", "gp.ExecuteNConcurrentMSort(2, 1, pol, data)"},
		{"ExecuteDAGModel", "gp.ExecuteDAGModel([][]string{{\"r0\", \"bad\"}, {\"r2\"}}, data)"},
		{"ExecuteRulesWithMultiInputWithSpecifiedEM", "gp.ExecuteRulesWithMultiInputWithSpecifiedEM(data)"},
	} {
		name := "FP_" + m.id
		fmt.Fprintf(&b, `
// pool.%s: three failing requests on a (1,2) pool, then a healthy one
func %s() {
	apis := map[string]interface{}{"ev": func(s string) { vnd.Event(s) }, "one": int64(1)}
	gp, e := engine.NewGenginePool(1, 2, engine.SortModel, %q, apis)
	if e != nil {
		vnd.Assert(false, "pool construction must succeed")
	}
	pol := vnd.Bool("pol")
	_ = pol
	for round := 0; round < 3; round++ {
		data := map[string]interface{}{"z": int64(0)}
		err, _ := %s
		vnd.Quiesce()
		vnd.Assert(err != nil, "a fault surfaces as a non-nil error")
	}
	c0 := vnd.Count("r2.e")
	data := map[string]interface{}{"z": int64(1)}
	err, _ := %s
	vnd.Quiesce()
	vnd.Reach("executed")
	vnd.Assert(err == nil, "a later healthy call on the same pool succeeds")
	vnd.Assert(vnd.Count("r2.e") == c0+1, "a later healthy call runs its rules")
}
`, m.id, name, poolText, m.call, m.call)
		fam.Instances = append(fam.Instances, Instance{Func: name, Stratum: "pool/" + m.id, Desc: "three failing pool requests through " + m.id + ", then a healthy one", Text: poolText, Expect: []string{"executed"}})
	}
	// two rules of one call fail (in the concurrent models: at the same time)
	text2 := "rule \"r0\" salience 30 begin\n ev(\"r0.s\")\n ev(\"r0.e\")\nend\nrule \"bad\" salience 20 begin\n ev(\"bad.s\")\n y = nosuch + 1\n ev(\"bad.e\")\nend\nrule \"bad2\" salience 15 begin\n ev(\"bad2.s\")\n y = boom()\n ev(\"bad2.e\")\nend\nrule \"bad3\" salience 12 begin\n ev(\"bad3.s\")\n y = np.I\n ev(\"bad3.e\")\nend\nrule \"r2\" salience 10 begin\n ev(\"r2.s\")\n ev(\"r2.e\")\nend\n"
	all5 := "[]string{\"r2\", \"bad3\", \"bad\", \"r0\", \"bad2\"}"
	for _, m := range []struct{ id, call string }{
		{"sort", "eng.Execute(rb, pol)"},
		{"stoptag", "eng.ExecuteWithStopTagDirect(rb, pol, &engine.Stag{})"},
		{"concurrent", "eng.ExecuteConcurrent(rb)"},
		{"mix", "eng.ExecuteMixModel(rb)"},
		{"inverse", "eng.ExecuteInverseMixModel(rb)"},
		{"nsortmconc", "eng.ExecuteNSortMConcurrent(1, 4, rb, pol)"},
		{"nconcmsort", "eng.ExecuteNConcurrentMSort(4, 1, rb, pol)"},
		{"nconcmconc", "eng.ExecuteNConcurrentMConcurrent(2, 3, rb, pol)"},
		{"dag", "eng.ExecuteDAGModel(rb, [][]string{{\"r0\"}, {\"bad\", \"bad2\", \"bad3\"}, {\"r2\"}})"},
		{"dagwide", "eng.ExecuteDAGModel(rb, [][]string{{\"r0\", \"bad\", \"bad2\", \"bad3\", \"r2\"}})"},
		{"selected", "eng.ExecuteSelectedRulesWithControl(rb, pol, " + all5 + ")"},
		{"selconc", "eng.ExecuteSelectedRulesConcurrent(rb, " + all5 + ")"},
		{"selmix", "eng.ExecuteSelectedRulesMixModel(rb, " + all5 + ")"},
		{"selinverse", "eng.ExecuteSelectedRulesInverseMixModel(rb, " + all5 + ")"},
		{"selnm", "eng.ExecuteSelectedNConcurrentMSort(4, 1, rb, pol, " + all5 + ")"},
		{"selnmconc", "eng.ExecuteSelectedNConcurrentMConcurrent(3, 2, rb, pol, " + all5 + ")"},
	} {
		name := "F3_" + m.id
		fmt.Fprintf(&b, `
// three failing rules in one call, model %s
func %s() {
	w := mkWorld()
	vnd.Assume(w.npnil)
	pol := vnd.Bool("pol")
	_ = pol
	rb := compile(w.dc, %q)
	eng := engine.NewGengine()
	err := %s
	vnd.Event("ret")
	vnd.Quiesce()
	vnd.Reach("executed")
	vnd.Assert(err != nil, "a fault surfaces as a non-nil error")
	vnd.Assert(vnd.Count("bad.e")+vnd.Count("bad2.e")+vnd.Count("bad3.e") == 0, "a failing rule stops at its fault")
	w.heal()
	rb = compile(w.dc, healthyText)
	c0 := vnd.Count("r2.e")
	err2 := eng.Execute(rb, true)
	vnd.Quiesce()
	vnd.Assert(err2 == nil, "a later healthy call on the same engine succeeds")
	vnd.Assert(vnd.Count("r2.e") == c0+1, "a later healthy call runs its rules")
}
`, m.id, name, text2, m.call)
		fam.Instances = append(fam.Instances, Instance{Func: name, Stratum: m.id + "/three-faults", Desc: "three failing rules in model " + m.id, Text: text2, Expect: []string{"executed"}})
	}
	fam.Files[repoDir+"/zz_verif/"+pkg+"/h.go"] = c09Head(pkg) + b.String()
	fam.TestFile = repoDir + "/zz_verif/" + pkg + "/zz_replay_test.go"
	fam.TestSrc = testFile(pkg, fam.Instances)
	return fam, nil
}

// c20Entries: the same texts, starting with blank lines, compiled through the other entry points.
const c20Entries = `
func viaEntry(entry string, w *world, text string) error {
	apis := map[string]interface{}{}
	// the text without its leading blank lines (the same rules, three lines higher up)
	first := 0
	for first < len(text) && (text[first] == '\n' || text[first] == ' ') {
		first++
	}
	unlead := text[first:]
	switch entry {
	case "resend":
		// the rules were installed from the unshifted text, then re-sent unchanged but shifted
		rb := builder.NewRuleBuilder(w.dc)
		if e := rb.BuildRuleFromString(unlead); e != nil {
			vnd.Assert(false, "build must succeed")
		}
		if e := rb.BuildRuleWithIncremental(text); e != nil {
			vnd.Assert(false, "incremental build must succeed")
		}
		return engine.NewGengine().Execute(rb, true)
	case "crlf":
		// the same text with Windows line ends
		crlf := ""
		for k := 0; k < len(text); k++ {
			if text[k] == '\n' {
				crlf += "\r"
			}
			crlf += text[k : k+1]
		}
		rb := builder.NewRuleBuilder(w.dc)
		if e := rb.BuildRuleFromString(crlf); e != nil {
			vnd.Assert(false, "build must succeed")
		}
		return engine.NewGengine().Execute(rb, true)
	case "incremental":
		rb := builder.NewRuleBuilder(w.dc)
		if e := rb.BuildRuleFromString("rule \"seed\" salience -100 begin\n ev(\"seed\")\nend\n"); e != nil {
			vnd.Assert(false, "build must succeed")
		}
		if e := rb.BuildRuleWithIncremental(text); e != nil {
			vnd.Assert(false, "incremental build must succeed")
		}
		return engine.NewGengine().Execute(rb, true)
	}
	apis["ev"] = func(s string) { vnd.Event(s) }
	apis["x"], apis["s"], apis["b"], apis["one"], apis["arr"] = int64(7), "str", true, int64(1), []int64{1, 2}
	apis["fi"] = func() interface{} { return int64(1) }
	apis["f1"] = func(a int64) int64 { return a }
	apis["fb"] = func(a bool) int64 { return 1 }
	apis["boom"] = func() int64 { panic("boom") }
	apis["dd"] = &CD{I: 2, P: &In{A: 1}}
	data := map[string]interface{}{"z": w.z, "ix": w.ix, "d": w.d, "np": w.np}
	seed := "rule \"seed\" salience -100 begin\n ev(\"seed\")\nend\n"
	var gp *engine.GenginePool
	var e error
	switch entry {
	case "poolctor":
		gp, e = engine.NewGenginePool(1, 2, engine.SortModel, text, apis)
	case "poolupdate":
		gp, e = engine.NewGenginePool(1, 2, engine.SortModel, seed, apis)
		if e == nil {
			e = gp.UpdatePooledRules(text)
		}
	case "poolresend":
		gp, e = engine.NewGenginePool(1, 2, engine.SortModel, unlead, apis)
		if e == nil {
			e = gp.UpdatePooledRulesIncremental(text)
		}
	default:
		gp, e = engine.NewGenginePool(1, 2, engine.SortModel, seed, apis)
		if e == nil {
			e = gp.UpdatePooledRulesIncremental(text)
		}
	}
	if e != nil {
		vnd.Assert(false, "compiling through "+entry+" must succeed")
	}
	err, _ := gp.Execute(data, true)
	return err
}
`

func genC20(tier string, seed int64) (*Family, error) {
	pkg := "c20"
	fam := &Family{
		Prop: "C20", PkgPath: modPath + "/zz_verif/" + pkg, Files: map[string]string{},
		Bounds: map[string]interface{}{"fault_classes": len(exprFaults) + len(stmtFaults), "positions": len(faultPositions), "layout": "three rules, comment and blank lines before and between them, every construct on its own line"},
		Cfg:    interp.Config{MaxSteps: 40_000_000},
		Functions: []string{"base.Assignment).Evaluate", "base.Expression).Evaluate", "base.MathExpression).Evaluate", "base.FunctionCall).Evaluate", "base.MethodCall).Evaluate",
			"base.ThreeLevelCall).Evaluate", "base.MapVar).Evaluate", "base.ForRangeStmt).Evaluate"},
	}
	fam.Assumptions = []string{
		"positions come from the real lexer run natively on each text (parser bridge); the solver contributes the fault / no-fault split and the all-paths claim",
		"citations are every 'line N, column' occurrence in the error text; the embedded Go stack trace cannot match that pattern",
		"must-cite classes: arithmetic, comparison and logic type faults, failing calls, failing assignments",
	}
	fam.Outside = []string{"column numbers", "which line is cited for constructs spanning several lines other than calls (an assignment whose failing operand sits on a later line is cited with both lines)"}
	var b strings.Builder
	for _, fc := range allFaultCases("thorough") {
		if fc.hang {
			continue
		}
		if tier != "thorough" && fc.isConc && fc.class != "arithmetic" {
			continue
		}
		name := "L_" + fc.id
		fmt.Fprintf(&b, `
// fault %s on line %d (enclosing statement lines %d-%d)
func %s() {
	w := mkWorld()
	z, ix, npnil, pnil, lm := w.z, w.ix, w.npnil, w.pnil, w.lm
	_, _, _, _, _ = z, ix, npnil, pnil, lm
	rb := compile(w.dc, %q)
	eng := engine.NewGengine()
	err := eng.Execute(rb, true)
	vnd.Reach("executed")
	if err == nil {
		return
	}
	if %s {
		return // the fault under test did not fire; another error (e.g. the loop cut-off) is not its subject
	}
	cites := citations(err.Error())
	for _, c := range cites {
		vnd.Assert(c != 0, "a cited line is never 0")
		vnd.Assert(c >= %d && c <= %d, "every cited line lies within the failing statement")
		vnd.Assert(c == %d, "every cited line is the line of the failing construct")
	}
	if %v {
		vnd.Assert(len(cites) > 0, "this fault class always cites a position")
		hit := false
		for _, c := range cites {
			if c == %d {
				hit = true
			}
		}
		vnd.Assert(hit, "the line of the failing construct is cited")
	}
}
`, fc.id, fc.line, fc.from, fc.to, name, fc.text, fc.healthy, fc.from, fc.to, fc.line, fc.mustCite, fc.line)
		fam.Instances = append(fam.Instances, Instance{Func: name, Stratum: fc.class, Desc: fmt.Sprintf("fault %s on line %d", fc.id, fc.line), Text: fc.text, Expect: []string{"executed"}})
	}
	// the other compile entry points, text starting with blank lines
	for _, fc := range allFaultCases("thorough") {
		if !(fc.id == "zerodiv_assign" || fc.id == "strless_if" || fc.id == "intand_elseif" || fc.id == "boom_forbody" || fc.id == "nilmapwrite" || fc.id == "zerodiv_conc" || fc.id == "rangeint") {
			continue
		}
		for _, entry := range []string{"incremental", "poolctor", "poolupdate", "poolincremental", "resend", "poolresend", "incremental-long", "crlf"} {
			name := "E_" + fc.id + "_" + strings.ReplaceAll(entry, "-", "_")
			lead := "\n   \n\n"
			shift := 3
			if entry == "incremental-long" {
				// the faulty construct sits beyond line 256 and beyond line 1024
				lead = strings.Repeat("\n", 300)
				shift = 300
				if fc.id == "zerodiv_assign" {
					lead = strings.Repeat("// filler\n", 1100)
					shift = 1100
				}
			}
			fmt.Fprintf(&b, `
// fault %s compiled through %s, text starting with three blank lines
func %s() {
	w := mkWorld()
	z, ix, npnil, pnil, lm := w.z, w.ix, w.npnil, w.pnil, w.lm
	_, _, _, _, _ = z, ix, npnil, pnil, lm
	err := viaEntry(%q, w, %q)
	vnd.Reach("executed")
	if err == nil {
		return
	}
	if %s {
		return
	}
	cites := citations(err.Error())
	vnd.Assert(len(cites) > 0 || !%v, "this fault class always cites a position")
	for _, c := range cites {
		vnd.Assert(c == %d, "every cited line is the line of the failing construct in the text as submitted")
	}
}
`, fc.id, entry, name, strings.TrimSuffix(entry, "-long"), lead+fc.text, fc.healthy, fc.mustCite, fc.line+shift)
			fam.Instances = append(fam.Instances, Instance{Func: name, Stratum: "entry:" + entry, Desc: fmt.Sprintf("fault %s through %s", fc.id, entry), Text: lead + fc.text, Expect: []string{"executed"}})
		}
	}
	fam.Files[repoDir+"/zz_verif/"+pkg+"/h.go"] = c09Head(pkg) + c20Entries + b.String()
	fam.TestFile = repoDir + "/zz_verif/" + pkg + "/zz_replay_test.go"
	fam.TestSrc = testFile(pkg, fam.Instances)
	return fam, nil
}
