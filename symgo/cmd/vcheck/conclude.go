package main

import (
	"bytes"
	"context"
	"encoding/json"
	"fmt"
	"os"
	"os/exec"
	"runtime"
	"path/filepath"
	"sort"
	"strings"
	"time"

	"symgo/interp"
	"symgo/smt"
)

type finding struct {
	Status   string `json:"status"` // known | fixed
	Property string `json:"property"`
	Key      string `json:"key"`
	Commit   string `json:"commit,omitempty"`
	What     string `json:"what"`
}

func loadFindings() []finding {
	var f struct {
		Findings []finding `json:"findings"`
	}
	b, err := os.ReadFile("/verif/known_findings.json")
	if err != nil {
		return nil
	}
	json.Unmarshal(b, &f)
	return f.Findings
}

// nativeBuild compiles the harness package (with the replay test) natively.
type nativeBuild struct {
	bin     string
	err     error
	scratch string
	fam     *Family
	race    bool
}

func buildNative(scratch string, fam *Family, race bool) *nativeBuild {
	nb := &nativeBuild{scratch: scratch, fam: fam, race: race}
	dir := filepath.Join(scratch, "native")
	if race {
		dir += "-race"
	}
	os.MkdirAll(dir, 0o755)
	files := map[string]string{}
	k := 0
	write := func(virt, src string) {
		k++
		real := filepath.Join(dir, fmt.Sprintf("f%d_%s", k, filepath.Base(virt)))
		os.WriteFile(real, []byte(src), 0o644)
		files[virt] = real
	}
	for virt, src := range fam.Files {
		write(virt, src)
	}
	write(fam.TestFile, fam.TestSrc)
	ovp, err := overlayJSON(dir, files)
	if err != nil {
		nb.err = err
		return nb
	}
	nb.bin = filepath.Join(dir, "replay.bin")
	args := []string{"test", "-c", "-vet=off", "-overlay", ovp, "-o", nb.bin}
	if race {
		args = append(args, "-race")
	}
	args = append(args, fam.PkgPath)
	cmd := exec.Command("go", args...)
	cmd.Dir = repoDir
	env := goEnv()
	if race {
		env = append(env, "CGO_ENABLED=1")
	}
	cmd.Env = env
	if out, err := cmd.CombinedOutput(); err != nil {
		nb.err = fmt.Errorf("native build of the harness package failed: %v\n%s", err, out)
	}
	return nb
}

type nativeRun struct {
	exit     int
	out      string
	timedOut bool
	events   []string
}

func (nb *nativeBuild) run(inst string, model map[string]string, timeout time.Duration, extraEnv ...string) nativeRun {
	inputs := filepath.Join(nb.scratch, fmt.Sprintf("inputs-%d.json", time.Now().UnixNano()))
	m := map[string]string{}
	for k, v := range model {
		if !strings.HasPrefix(k, "!") {
			m[k] = v
		}
	}
	writeJSON(inputs, m)
	defer os.Remove(inputs)
	ctx, cancel := context.WithTimeout(context.Background(), timeout)
	defer cancel()
	cmd := exec.CommandContext(ctx, nb.bin, "-test.run", "TestReplay", "-test.timeout", "60s")
	cmd.Env = append(append(os.Environ(), "VND_INSTANCE="+inst, "VND_INPUTS="+inputs, "VND_VERBOSE=1"), extraEnv...)
	var buf bytes.Buffer
	cmd.Stdout, cmd.Stderr = &buf, &buf
	err := cmd.Run()
	r := nativeRun{out: buf.String()}
	if ctx.Err() != nil {
		r.timedOut = true
	}
	if ee, ok := err.(*exec.ExitError); ok {
		r.exit = ee.ExitCode()
	} else if err != nil {
		r.exit = -1
	}
	for _, l := range strings.Split(r.out, "\n") {
		if strings.HasPrefix(l, "VND-EVENT: ") {
			r.events = append(r.events, strings.TrimPrefix(l, "VND-EVENT: "))
		}
	}
	return r
}

// confirm replays a violation natively.
func confirm(nb *nativeBuild, inst Instance, v interp.Violation) (bool, string) {
	tries := 5 // native map iteration and goroutine timing may differ from the extracted path
	if v.Model["!maporder"] != "" || strings.Contains(inst.Desc, "map-order") || inst.MapOrd {
		tries = 30
	}
	var last nativeRun
	for t := 0; t < tries; t++ {
		var extra []string
		if t%2 == 1 {
			// one processor: goroutines run in spawn order until they block, which reaches
			// interleavings that need "the first finished before the second started"
			extra = []string{"GOMAXPROCS=1"}
		}
		if t >= tries-2 && len(v.Model) > 0 {
			// the last attempts hold events back for up to 3.2 s (time-outs measured in seconds)
			extra = append(extra, "VND_HOLD_ITER=1600")
		}
		r := nb.run(inst.Func, v.Model, 20*time.Second, extra...)
		last = r
		switch v.Kind {
		case "assert", "expect":
			if r.exit == 3 && strings.Contains(r.out, "VND-ASSERT-FAILED: "+v.Label) {
				return true, r.out
			}
			if r.exit == 3 && strings.Contains(r.out, "VND-ASSERT-FAILED: ") && t == tries-1 {
				// the real build fails another clause of the same property harness on these inputs
				return true, r.out
			}
		case "crash":
			if r.exit == 2 && (strings.Contains(r.out, "panic:") || strings.Contains(r.out, "fatal error:")) {
				return true, r.out
			}
		case "hang":
			if r.timedOut {
				return true, r.out
			}
		case "deadlock":
			if r.timedOut || strings.Contains(r.out, "all goroutines are asleep") {
				return true, r.out
			}
		case "order":
			if r.exit == 3 && strings.Contains(r.out, "VND-ASSERT-FAILED: order") {
				return true, r.out
			}
		case "join":
			if r.exit == 3 && strings.Contains(r.out, "VND-ASSERT-FAILED: joined") {
				return true, r.out
			}
		}
	}
	return false, last.out
}

type vioGroup struct {
	key   string
	inst  Instance
	items []interp.Violation
}

func conclude(prop, tier string, seed int64, fam *Family, results []instResult, infra []string, scratch string, bridge *bridgeClient, loadS float64, t0 time.Time) int {
	findings := loadFindings()
	known := map[string]finding{}
	for _, f := range findings {
		if f.Status == "known" && f.Property == prop {
			known[f.Key] = f
		}
	}

	// aggregate
	var paths, queries, steps, events, schedQ, unknowns, fallbacks int
	var solverS float64
	ends := map[string]int{}
	funcs := map[string]bool{}
	stubs := map[string]int{}
	assumes := map[string]bool{}
	strata := map[string]int{}
	var unsupported []string
	var reachMissing []string
	groups := map[string]*vioGroup{}
	var order []string
	for _, r := range results {
		rep := r.rep
		paths += len(rep.Paths)
		queries += rep.Solver.Queries
		solverS += rep.Solver.Seconds
		steps += rep.Steps
		events += rep.Events
		schedQ += rep.SchedQ
		unknowns += rep.Unknowns
		fallbacks += rep.Solver.Fallbacks
		strata[r.inst.Stratum]++
		for k, n := range rep.Ends {
			ends[k] += n
		}
		for f := range rep.Funcs {
			funcs[f] = true
		}
		for s, n := range rep.Stubs {
			stubs[s] += n
		}
		for a := range rep.Assumes {
			assumes[a] = true
		}
		for _, u := range rep.Unsupported {
			unsupported = append(unsupported, r.inst.Func+": "+u)
		}
		for _, want := range r.inst.Expect {
			if rep.Reached[want] == 0 {
				reachMissing = append(reachMissing, r.inst.Func+": "+want)
			}
		}
		for _, v := range rep.Violations {
			key := v.Kind + "|" + r.inst.Stratum + "|" + v.Label
			if v.Kind == "race" || v.Kind == "torn-read" || v.Kind == "stale-read" {
				key = v.Key
			}
			if v.Kind == "crash" || v.Kind == "deadlock" || v.Kind == "hang" {
				key = v.Kind + "|" + r.inst.Stratum
			}
			if *flagNoGroup {
				key += "|" + r.inst.Func
			}
			g, ok := groups[key]
			if !ok {
				g = &vioGroup{key: key, inst: r.inst}
				groups[key] = g
				order = append(order, key)
			}
			if len(g.items) < 3 {
				g.items = append(g.items, v)
			}
		}
	}
	sort.Strings(order)

	// native build: replays and sampled path validation
	var nb *nativeBuild
	needNative := len(groups) > 0
	validated, mismatches := 0, 0
	var mismatchNotes []string
	nb = buildNative(scratch, fam, os.Getenv("VCHECK_RACE_AUDIT") != "") // the audit variant (debug) runs the sampled paths under the race detector
	if nb.err != nil {
		infra = append(infra, nb.err.Error())
	} else {
		validated, mismatches, mismatchNotes = validateSamples(nb, results)
	}
	_ = needNative

	exit := 0
	var lines []string
	nKnown, nViol, nSpurious := 0, 0, 0
	var vioRecords []map[string]interface{}
	for n, key := range order {
		g := groups[key]
		confirmed := false
		var out string
		var witness interp.Violation
		if nb != nil && nb.err == nil && !*flagNoRepl {
			for _, v := range g.items {
				if v.Kind == "race" {
					// schedule findings are confirmed by their own replays (see race.go)
					ok, o := confirmSchedule(scratch, fam, g.inst, v)
					if ok {
						confirmed, out, witness = true, o, v
						break
					}
					out = o
					continue
				}
				ok, o := confirm(nb, g.inst, v)
				if ok {
					confirmed, out, witness = true, o, v
					break
				}
				out = o
			}
		}
		rec := map[string]interface{}{"key": key, "instance": g.inst.Func, "desc": g.inst.Desc, "confirmed": confirmed}
		if !confirmed {
			nSpurious++
			rec["status"] = "not reproduced natively"
			rec["model"] = g.items[0].Model
			rec["native_output"] = tail(out, 600)
			vioRecords = append(vioRecords, rec)
			lines = append(lines, fmt.Sprintf("INCONCLUSIVE: counterexample for %s (%s) did not reproduce against the real build", key, g.inst.Func))
			if exit == 0 {
				exit = 2
			}
			continue
		}
		rec["model"] = witness.Model
		if f, ok := known[key]; ok {
			nKnown++
			rec["status"] = "known finding"
			lines = append(lines, fmt.Sprintf("KNOWN-FINDING: property=%s %s [%s]", prop, f.What, key))
		} else {
			nViol++
			dir := fmt.Sprintf("/verif/replays/%s/%d", prop, n)
			writeReplay(dir, fam, g.inst, witness, out)
			rec["status"] = "violation"
			rec["replay"] = dir
			lines = append(lines, fmt.Sprintf("VIOLATION property=%s replay=%s", prop, dir))
			lines = append(lines, fmt.Sprintf("  key=%s instance=%s (%s) model=%v", key, g.inst.Func, g.inst.Desc, witness.Model))
			exit = 1
		}
		vioRecords = append(vioRecords, rec)
	}

	// infrastructure verdicts
	sort.Strings(unsupported)
	if len(infra) > 0 || len(unsupported) > 0 || len(reachMissing) > 0 || mismatches > 0 || unknowns > 0 {
		for _, s := range infra {
			lines = append(lines, "INCONCLUSIVE: "+firstLineOf(s))
		}
		for k, s := range unsupported {
			if k < 8 {
				lines = append(lines, "INCONCLUSIVE: "+firstLineOf(s))
			}
		}
		for k, s := range reachMissing {
			if k < 8 {
				lines = append(lines, "INCONCLUSIVE: reachability witness not reached: "+s)
			}
		}
		for _, s := range mismatchNotes {
			lines = append(lines, "INCONCLUSIVE: native/symbolic mismatch: "+s)
		}
		if unknowns > 0 {
			lines = append(lines, fmt.Sprintf("INCONCLUSIVE: %d solver answers were unknown/timeout", unknowns))
		}
		if exit == 0 {
			exit = 2
		}
	}
	// a thinned sample of the decided queries is re-decided by the other installed solvers
	var cross *smt.CrossResult
	if smt.Global != nil {
		cross = smt.Global.Cross(runtime.NumCPU())
		for k, d := range cross.Disagree {
			path := fmt.Sprintf("/verif/replays/%s/solver-disagreement-%d.smt2", prop, k)
			os.MkdirAll(filepath.Dir(path), 0o755)
			os.WriteFile(path, []byte(cross.Scripts[k]+"(check-sat)\n"), 0o644)
			lines = append(lines, fmt.Sprintf("INCONCLUSIVE: solvers disagree on a sampled query (%s), script %s", d, path))
			if exit == 0 {
				exit = 2
			}
		}
	}
	// every function the property is anchored in must have been executed
	var notHit []string
	for _, f := range fam.Functions {
		hit := false
		for g := range funcs {
			if strings.Contains(g, f) {
				hit = true
				break
			}
		}
		if !hit {
			notHit = append(notHit, f)
		}
	}
	if len(notHit) > 0 && *flagOnly == "" {
		lines = append(lines, "INCONCLUSIVE: anchored functions never executed: "+strings.Join(notHit, ", "))
		if exit == 0 {
			exit = 2
		}
	}

	for _, l := range lines {
		fmt.Println(l)
	}

	// evidence
	var fl []string
	for f := range funcs {
		fl = append(fl, strings.ReplaceAll(f, modPath+"/", ""))
	}
	sort.Strings(fl)
	var samples []interface{}
	for k, r := range results {
		if k%max(1, len(results)/6) == 0 && len(samples) < 8 {
			s := map[string]interface{}{"harness": r.inst.Func, "stratum": r.inst.Stratum, "desc": r.inst.Desc,
				"paths": len(r.rep.Paths), "ends": r.rep.Ends, "solver_queries": r.rep.Solver.Queries}
			if r.inst.Text != "" {
				s["rule_text"] = r.inst.Text
			}
			if len(r.rep.Paths) > 0 {
				p := r.rep.Paths[len(r.rep.Paths)-1]
				s["a_path"] = map[string]interface{}{"decisions": p.Decisions, "end": p.End, "steps": p.Steps, "events": p.Events, "threads": p.Threads, "trace": p.Trace, "inputs": p.Model}
			}
			samples = append(samples, s)
		}
	}
	var assumeList []string
	for a := range assumes {
		assumeList = append(assumeList, "harness assume: "+a)
	}
	sort.Strings(assumeList)
	if len(assumeList) > 12 {
		assumeList = append(assumeList[:12], fmt.Sprintf("... and %d more harness assumptions", len(assumeList)-12))
	}
	assumptions := append([]string{}, fam.Assumptions...)
	assumptions = append(assumptions, assumeList...)
	var stubList []string
	for s, n := range stubs {
		stubList = append(stubList, fmt.Sprintf("%s (x%d)", s, n))
	}
	sort.Strings(stubList)
	ev := map[string]interface{}{
		"property_id": prop,
		"tier":        tier,
		"seed":        seed,
		"level":       "model_checking",
		"wall_s":      time.Since(t0).Seconds(),
		"violations":  nViol,
		"assumptions": assumptions,
		"coverage": map[string]interface{}{
			"states":                        paths,
			"transitions":                   queries,
			"traces_validated_against_impl": validated,
			"samples":                       samples,
			"explanation":                   "cross_solver_check = an evenly thinned sample of the queries z3 4.8.12 decided, re-decided by fresh one-shot runs of z3 5.1 (10 s cap) and cvc5 1.0 (5 s cap; no_verdict = timeout, unknown or an operator the other solver does not parse), any sat/unsat disagreement makes the run inconclusive; solver_fallbacks = queries the incremental z3 session answered unknown within 20 s and a fresh non-incremental run of z3 4.8.12 / z3 5.1 / cvc5 decided; states = symbolic paths explored (each is one control path of the real SSA with its event structure); transitions = SMT queries discharged (branch feasibility, assertions, schedule queries); traces validated = sampled paths whose solver model was run against the native build and whose event trace and assertions agreed",
			"technique":                     "symbolic execution of go/ssa of /repo + SMT (z3)",
			"harness_instances":             len(results),
			"strata":                        strata,
			"paths_by_end":                  ends,
			"ssa_steps":                     steps,
			"events_logged":                 events,
			"schedule_queries":              schedQ,
			"solver_seconds":                solverS,
			"solver_unknown":                unknowns,
			"solver_fallbacks":              fallbacks,
			"cross_solver_check":            cross,
			"load_seconds":                  loadS,
			"bridge_texts_parsed_natively":  bridge.Texts,
			"functions_encoded":             fl,
			"stubs_hit":                     stubList,
			"bounds":                        fam.Bounds,
			"outside_claim":                 fam.Outside,
			"known_findings_reported":       nKnown,
			"spurious_discarded":            nSpurious,
			"native_mismatches":             mismatches,
			"unsupported":                   firstN(unsupported, 10),
			"reach_missing":                 firstN(reachMissing, 10),
			"violations_detail":             vioRecords,
			"exit":                          exit,
		},
	}
	evDir := "/verif/evidence"
	if d := os.Getenv("VCHECK_EVIDENCE_DIR"); d != "" {
		evDir = d
	}
	writeJSON(fmt.Sprintf("%s/%s.json", evDir, prop), ev)
	fmt.Printf("%s %s: instances=%d paths=%d queries=%d (sched %d) solver=%.1fs validated=%d known=%d violations=%d inconclusive=%v wall=%.1fs\n",
		prop, tier, len(results), paths, queries, schedQ, solverS, validated, nKnown, nViol, exit == 2, time.Since(t0).Seconds())
	return exit
}

func firstN(s []string, n int) []string {
	if len(s) > n {
		return s[:n]
	}
	return s
}

func firstLineOf(s string) string {
	if k := strings.IndexByte(s, '\n'); k >= 0 {
		return s[:k]
	}
	return s
}

func tail(s string, n int) string {
	if len(s) > n {
		return s[len(s)-n:]
	}
	return s
}

// validateSamples runs sampled path models natively and compares traces.
func validateSamples(nb *nativeBuild, results []instResult) (ok, bad int, notes []string) {
	type job struct {
		inst Instance
		p    interp.PathResult
	}
	var jobs []job
	for _, r := range results {
		n := 0
		for _, p := range r.rep.Paths {
			if r.inst.Nondet {
				break
			}
			if p.Model != nil && n < 2 {
				jobs = append(jobs, job{r.inst, p})
				n++
			}
		}
	}
	// cap the native runs
	if len(jobs) > 120 {
		step := len(jobs) / 120
		var pick []job
		for k := 0; k < len(jobs); k += step + 1 {
			pick = append(pick, jobs[k])
		}
		jobs = pick
	}
	type res struct {
		good bool
		note string
	}
	out := make([]res, len(jobs))
	sem := make(chan struct{}, 8)
	done := make(chan int)
	for k := range jobs {
		go func(k int) {
			sem <- struct{}{}
			defer func() { <-sem; done <- k }()
			j := jobs[k]
			r := nb.run(j.inst.Func, j.p.Model, 30*time.Second)
			if r.exit != 0 {
				out[k] = res{false, fmt.Sprintf("%s: native run of a passing path exited %d: %s", j.inst.Func, r.exit, tail(r.out, 300))}
				return
			}
			a, b := append([]string{}, r.events...), append([]string{}, j.p.Trace...)
			if j.p.MapForks > 0 {
				// the path fixed a map iteration order that the native run is free not to take (with
				// tied saliences another rule may legitimately go first): the native run passing all
				// harness assertions is what is compared
				out[k] = res{true, ""}
				return
			}
			if j.p.Threads > 1 {
				sort.Strings(a)
				sort.Strings(b)
			}
			if strings.Join(a, ",") != strings.Join(b, ",") {
				out[k] = res{false, fmt.Sprintf("%s: event trace differs: native %v symbolic %v (inputs %v)", j.inst.Func, r.events, j.p.Trace, j.p.Model)}
				return
			}
			out[k] = res{true, ""}
		}(k)
	}
	for range jobs {
		<-done
	}
	for _, r := range out {
		if r.good {
			ok++
		} else {
			bad++
			if len(notes) < 5 {
				notes = append(notes, r.note)
			}
		}
	}
	return
}

func writeReplay(dir string, fam *Family, inst Instance, v interp.Violation, out string) {
	os.RemoveAll(dir)
	os.MkdirAll(dir, 0o755)
	m := map[string]string{}
	for k, x := range v.Model {
		if !strings.HasPrefix(k, "!") {
			m[k] = x
		}
	}
	writeJSON(filepath.Join(dir, "inputs.json"), m)
	files := map[string]string{}
	k := 0
	for virt, src := range fam.Files {
		k++
		real := filepath.Join(dir, fmt.Sprintf("f%d_%s", k, filepath.Base(virt)))
		os.WriteFile(real, []byte(src), 0o644)
		files[virt] = real
	}
	real := filepath.Join(dir, "zz_replay_test.go")
	os.WriteFile(real, []byte(fam.TestSrc), 0o644)
	files[fam.TestFile] = real
	overlayJSON(dir, files)
	sh := fmt.Sprintf(`#!/bin/sh
# Replays the counterexample against the real build of /repo.
# Exit 3 with "VND-ASSERT-FAILED" (or a panic / hang for crash findings) = reproduced.
cd /repo && GOFLAGS=-mod=mod GOPROXY=off GOSUMDB=off go test -c -vet=off -overlay %s/overlay.json -o %s/replay.bin %s && \
VND_INSTANCE=%s VND_INPUTS=%s/inputs.json VND_VERBOSE=1 %s/replay.bin -test.run TestReplay -test.timeout 60s
`, dir, dir, fam.PkgPath, inst.Func, dir, dir)
	os.WriteFile(filepath.Join(dir, "run.sh"), []byte(sh), 0o755)
	info := map[string]interface{}{"property": fam.Prop, "instance": inst, "violation": v, "native_output": tail(out, 2000)}
	writeJSON(filepath.Join(dir, "violation.json"), info)
}
