package main

import (
	"fmt"
	"math/rand"
	"strings"

	"symgo/interp"
)

func init() { generators["C02"] = genC02 }

// ---- a small statement language with two back ends: gengine text and Go ----

type pstmt struct {
	kind  string // obs, assign, sassign, if, for, forrange, maprange, break, continue, return
	id    int
	v     string // local name
	op    string // = := += -= *= /=
	rhs   string // operand: literal or local
	cond  pcond
	body  []*pstmt
	elifs []pelif
	els   []*pstmt
	hasEl bool
	bound string // for: "n" or literal
	lv    string // loop variable
}

type pcond struct {
	kind string // "c" (injected symbolic) or "cmp"
	id   int
	l    string
	op   string
	r    string
}

type pelif struct {
	cond pcond
	body []*pstmt
}

func (c pcond) rule() string {
	if c.kind == "c" {
		return fmt.Sprintf("c(%d)", c.id)
	}
	return c.l + " " + c.op + " " + c.r
}

func (c pcond) golang() string {
	if c.kind == "c" {
		return fmt.Sprintf("cs.get(%d)", c.id)
	}
	return c.l + " " + c.op + " " + c.r
}

type pgen struct {
	r      *rand.Rand
	nextID int
	stmts  int
	maxSt  int
}

func (g *pgen) id() int { g.nextID++; return g.nextID }

func (g *pgen) cond(loopVars []string) pcond {
	if g.r.Intn(3) == 0 {
		vars := append([]string{"x", "y"}, loopVars...)
		return pcond{kind: "cmp", l: vars[g.r.Intn(len(vars))], op: []string{"<", ">", "==", "!=", "<=", ">="}[g.r.Intn(6)], r: fmt.Sprint(g.r.Intn(4))}
	}
	return pcond{kind: "c", id: g.id()}
}

func (g *pgen) block(depth int, inLoop bool, loopVars []string, n int) []*pstmt {
	var out []*pstmt
	for k := 0; k < n && g.stmts < g.maxSt; k++ {
		st := g.stmt(depth, inLoop, loopVars)
		out = append(out, st)
		if st.kind == "return" {
			break // the grammar allows return only as the last statement of a block
		}
		out = append(out, &pstmt{kind: "obs", id: g.id()})
	}
	return out
}

func (g *pgen) stmt(depth int, inLoop bool, loopVars []string) *pstmt {
	g.stmts++
	choices := []string{"assign", "assign", "sassign", "obs"}
	if depth < 3 {
		choices = append(choices, "if", "if", "for", "forrange")
		if depth < 2 {
			choices = append(choices, "maprange")
		}
	}
	if inLoop {
		choices = append(choices, "break", "continue")
	}
	if depth > 0 {
		choices = append(choices, "return")
	}
	switch k := choices[g.r.Intn(len(choices))]; k {
	case "obs":
		return &pstmt{kind: "obs", id: g.id()}
	case "assign":
		v := []string{"x", "y"}[g.r.Intn(2)]
		op := []string{"=", ":=", "+=", "-=", "*=", "/="}[g.r.Intn(6)]
		rhs := fmt.Sprint(1 + g.r.Intn(3))
		if op != "/=" && g.r.Intn(3) == 0 {
			rhs = []string{"x", "y"}[g.r.Intn(2)]
		}
		return &pstmt{kind: "assign", v: v, op: op, rhs: rhs}
	case "sassign":
		return &pstmt{kind: "sassign", op: []string{"=", "+=", "-=", "*="}[g.r.Intn(4)], rhs: []string{"1", "2", "x", "y"}[g.r.Intn(4)]}
	case "if":
		s := &pstmt{kind: "if", cond: g.cond(loopVars)}
		s.body = g.block(depth+1, inLoop, loopVars, 1+g.r.Intn(2))
		for e := g.r.Intn(3); e > 0; e-- {
			s.elifs = append(s.elifs, pelif{cond: g.cond(loopVars), body: g.block(depth+1, inLoop, loopVars, 1)})
		}
		if g.r.Intn(2) == 0 {
			s.hasEl = true
			s.els = g.block(depth+1, inLoop, loopVars, 1)
		}
		return s
	case "for":
		lv := []string{"i", "j", "k"}[len(loopVars)%3]
		bound := "2"
		if len(loopVars) == 0 && g.r.Intn(2) == 0 {
			bound = "n"
		}
		s := &pstmt{kind: "for", lv: lv, bound: bound}
		s.body = g.block(depth+1, true, append(append([]string{}, loopVars...), lv), 1+g.r.Intn(2))
		return s
	case "forrange":
		lv := []string{"p", "q", "u"}[len(loopVars)%3]
		s := &pstmt{kind: "forrange", lv: lv}
		s.body = g.block(depth+1, true, append(append([]string{}, loopVars...), lv), 1+g.r.Intn(2))
		return s
	case "maprange":
		return &pstmt{kind: "maprange", lv: "mk", v: []string{"x", "y"}[g.r.Intn(2)]}
	case "return":
		return &pstmt{kind: "return", rhs: []string{"x", "y", "7"}[g.r.Intn(3)]}
	default:
		return &pstmt{kind: k}
	}
}

func ind(n int) string { return strings.Repeat(" ", n+1) }

func ruleText(ss []*pstmt, d int, b *strings.Builder) {
	for _, s := range ss {
		switch s.kind {
		case "obs":
			fmt.Fprintf(b, "%st(%d)\n", ind(d), s.id)
		case "assign":
			fmt.Fprintf(b, "%s%s %s %s\n", ind(d), s.v, s.op, s.rhs)
		case "sassign":
			fmt.Fprintf(b, "%sS.N %s %s\n", ind(d), s.op, s.rhs)
		case "if":
			fmt.Fprintf(b, "%sif %s {\n", ind(d), s.cond.rule())
			ruleText(s.body, d+1, b)
			for _, e := range s.elifs {
				fmt.Fprintf(b, "%s} else if %s {\n", ind(d), e.cond.rule())
				ruleText(e.body, d+1, b)
			}
			if s.hasEl {
				fmt.Fprintf(b, "%s} else {\n", ind(d))
				ruleText(s.els, d+1, b)
			}
			fmt.Fprintf(b, "%s}\n", ind(d))
		case "for":
			fmt.Fprintf(b, "%sfor %s = 0; %s < %s; %s += 1 {\n", ind(d), s.lv, s.lv, s.bound, s.lv)
			ruleText(s.body, d+1, b)
			fmt.Fprintf(b, "%s}\n", ind(d))
		case "forrange":
			fmt.Fprintf(b, "%sforRange %s := arr {\n", ind(d), s.lv)
			ruleText(s.body, d+1, b)
			fmt.Fprintf(b, "%s}\n", ind(d))
		case "maprange":
			fmt.Fprintf(b, "%sforRange mk := mp {\n%s%s += mk\n%s%s += mp[mk]\n%s}\n", ind(d), ind(d+1), s.v, ind(d+1), s.v, ind(d))
		case "break", "continue":
			fmt.Fprintf(b, "%s%s\n", ind(d), s.kind)
		case "return":
			fmt.Fprintf(b, "%sreturn %s\n", ind(d), s.rhs)
		case "retvoid":
			fmt.Fprintf(b, "%sreturn\n", ind(d))
		}
	}
}

func goText(ss []*pstmt, d int, b *strings.Builder) {
	tab := strings.Repeat("\t", d+1)
	for _, s := range ss {
		switch s.kind {
		case "obs":
			fmt.Fprintf(b, "%sobs(%d)\n", tab, s.id)
		case "assign":
			op := s.op
			if op == ":=" {
				op = "="
			}
			fmt.Fprintf(b, "%s%s %s %s\n", tab, s.v, op, s.rhs)
		case "sassign":
			fmt.Fprintf(b, "%sS.N %s %s\n", tab, s.op, s.rhs)
		case "if":
			fmt.Fprintf(b, "%sif %s {\n", tab, s.cond.golang())
			goText(s.body, d+1, b)
			for _, e := range s.elifs {
				fmt.Fprintf(b, "%s} else if %s {\n", tab, e.cond.golang())
				goText(e.body, d+1, b)
			}
			if s.hasEl {
				fmt.Fprintf(b, "%s} else {\n", tab)
				goText(s.els, d+1, b)
			}
			fmt.Fprintf(b, "%s}\n", tab)
		case "for":
			fmt.Fprintf(b, "%sfor %s = 0; %s < %s; %s += 1 {\n", tab, s.lv, s.lv, s.bound, s.lv)
			goText(s.body, d+1, b)
			fmt.Fprintf(b, "%s}\n", tab)
		case "forrange":
			fmt.Fprintf(b, "%sfor idx := range arr {\n%s\t%s = int64(idx)\n", tab, tab, s.lv)
			goText(s.body, d+1, b)
			fmt.Fprintf(b, "%s}\n", tab)
		case "maprange":
			fmt.Fprintf(b, "%sfor key, val := range mp {\n%s\tmk = key\n%s\t%s += key\n%s\t%s += val\n%s}\n", tab, tab, tab, s.v, tab, s.v, tab)
		case "break", "continue":
			fmt.Fprintf(b, "%s%s\n", tab, s.kind)
		case "return":
			fmt.Fprintf(b, "%sreturn %s, true, x, y\n", tab, s.rhs)
		case "retvoid":
			fmt.Fprintf(b, "%svoidReturn = true\n%sreturn 0, true, x, y\n", tab, tab)
		}
	}
}

const c02Lib = `
type St struct{ N int64 }

// condSrc hands the same fresh symbolic condition to the k-th call of c(id)
// in the gengine run and in the reference run.
type condSrc struct {
	vals map[string]bool
	cnt  map[int]int
}

func newCondSrc() *condSrc { return &condSrc{vals: map[string]bool{}, cnt: map[int]int{}} }

func (c *condSrc) reset() { c.cnt = map[int]int{} }

func (c *condSrc) get(id int) bool {
	j := c.cnt[id]
	c.cnt[id] = j + 1
	key := "c" + strconv.Itoa(id) + "_" + strconv.Itoa(j)
	if v, ok := c.vals[key]; ok {
		return v
	}
	v := vnd.Bool(key)
	c.vals[key] = v
	return v
}

func obs(id int) { vnd.Event("t" + strconv.Itoa(id)) }

// voidReturn is set by the reference program when it ends in a bare return.
var voidReturn bool

// compare runs the compiled rule and checks it against the reference outcome.
func compare(text string, cs *condSrc, n int64, S *St, arr []int64, mp map[int64]int64,
	ref func(cs *condSrc, n int64, S *St, arr []int64, mp map[int64]int64) (int64, bool, int64, int64)) {
	dc := context.NewDataContext()
	dc.Add("t", func(id int64) { obs(int(id)) })
	dc.Add("c", func(id int64) bool { return cs.get(int(id)) })
	dc.Add("n", n)
	dc.Add("S", S)
	dc.Add("arr", arr)
	dc.Add("mp", mp)
	var fx, fy int64
	fin := false
	dc.Add("fin", func(a, b int64) { fx, fy, fin = a, b, true })
	rb := builder.NewRuleBuilder(dc)
	must(rb.BuildRuleFromString(text), "build")
	eng := engine.NewGengine()
	s0 := S.N
	err := eng.Execute(rb, true)
	res, _ := eng.GetRulesResultMap()
	tr1 := vnd.Trace()
	got := S.N
	vnd.Reach("executed")
	// reference run on the same inputs
	S.N = s0
	cs.reset()
	voidReturn = false
	ret, returned, rx, ry := ref(cs, n, S, arr, mp)
	tr2 := vnd.Trace()[len(tr1):]
	vnd.Assert(err == nil, "a well-formed program runs without error")
	vnd.Assert(len(tr1) == len(tr2), "same number of observer calls")
	if len(tr1) != len(tr2) {
		return
	}
	for k := range tr1 {
		vnd.Assert(tr1[k] == tr2[k], "statements run in the reference order")
	}
	vnd.Assert(got == S.N, "injected field has the reference value")
	v, has := res["r"]
	vnd.Assert(has == returned, "return reached iff the reference returns")
	if has && returned && voidReturn {
		vnd.Assert(v == nil, "a bare return yields no value")
	} else if has && returned {
		x, ok := v.(int64)
		vnd.Assert(ok, "returned value type")
		vnd.Assert(x == ret, "returned value")
	}
	vnd.Assert(fin == !returned, "the rule runs to its end iff no return was reached")
	if fin && !returned {
		vnd.Assert(fx == rx, "local x has the reference value")
		vnd.Assert(fy == ry, "local y has the reference value")
	}
}
`

func c02Program(name string, ss []*pstmt, desc string) (string, string) {
	var rt, gt strings.Builder
	ruleText(ss, 0, &rt)
	goText(ss, 0, &gt)
	text := "rule \"r\" begin\n x = 0\n y = 0\n" + rt.String() + " fin(x, y)\nend\n"
	src := fmt.Sprintf(`
// %s
func %s() {
	cs := newCondSrc()
	n := vnd.Int64("n")
	vnd.Assume(vnd.And(n >= 0, n <= 3))
	S := &St{N: vnd.Int64("sn")}
	arr := make([]int64, 2, 5) // spare capacity: only the 2 elements are visited
	arr[0], arr[1] = vnd.Int64("a0"), vnd.Int64("a1")
	mp := map[int64]int64{1: vnd.Int64("m1"), 5: vnd.Int64("m5")}
	compare(%q, cs, n, S, arr, mp, func(cs *condSrc, n int64, S *St, arr []int64, mp map[int64]int64) (int64, bool, int64, int64) {
		var x, y, i, j, k, p, q, u, mk int64
		_, _, _, _, _, _, _ = i, j, k, p, q, u, mk
%s		return 0, false, x, y
	})
}
`, desc, name, text, gt.String())
	return src, text
}

func genC02(tier string, seed int64) (*Family, error) {
	pkg := "c02"
	fam := &Family{
		Prop: "C02", PkgPath: modPath + "/zz_verif/" + pkg, Files: map[string]string{},
		Bounds: map[string]interface{}{"nesting_depth": 3, "statements_per_program": "<= 10 (+ observer calls)", "loop_iterations": "for: bound n symbolic in [0,3] or literal 2; forRange over a 2-element slice / 2-key map"},
		Cfg:    interp.Config{MaxSteps: 4_000_000, MaxPaths: 20000},
		Functions: []string{"base.Statements).Evaluate", "base.Statement).Evaluate", "base.IfStmt).Evaluate", "base.ForStmt).Evaluate", "base.ForRangeStmt).Evaluate",
			"base.BreakStmt).Evaluate", "base.ContinueStmt).Evaluate", "base.ReturnStatement).Evaluate", "base.Assignment).Evaluate", "iter.NewInter", "DataContext).SetValue"},
	}
	fam.Assumptions = []string{
		"programs are generated (seeded, deterministic) from a statement grammar; each is emitted twice: as rule text and as a Go function using Go's own if/for/break/continue/return, which is the reference",
		"branch conditions are calls of an injected function returning a fresh symbolic boolean per call (the same value for the k-th call in both runs) or comparisons of locals; every statement is followed by an observer call",
		"locals are int64 and initialised at the top (a dedicated instance covers use-before-definition); loops stay far below the engine's 10000-iteration cut-off",
		"forRange over a map only accumulates (order-insensitive body), because Go leaves the order unspecified",
	}
	fam.Outside = []string{"deeper nesting or longer programs than the bound", "loops with more iterations than the bound"}
	nProg := 140
	if tier == "thorough" {
		nProg = 700
	}
	var b strings.Builder
	r := rand.New(rand.NewSource(seed*7919 + 17))
	for k := 0; k < nProg; k++ {
		g := &pgen{r: r, maxSt: 4 + k%7}
		ss := g.block(0, false, nil, 2+r.Intn(3))
		name := fmt.Sprintf("P_%03d", k)
		src, text := c02Program(name, ss, fmt.Sprintf("generated program %d", k))
		b.WriteString(src)
		fam.Instances = append(fam.Instances, Instance{Func: name, Stratum: fmt.Sprintf("generated/stmts<=%d", g.maxSt), Desc: fmt.Sprintf("generated program %d", k), Text: text, Expect: []string{"executed"}})
	}
	// hand-written programs for the individual clauses
	c := func(id int) pcond { return pcond{kind: "c", id: id} }
	o := func(id int) *pstmt { return &pstmt{kind: "obs", id: id} }
	as := func(v, op, rhs string) *pstmt { return &pstmt{kind: "assign", v: v, op: op, rhs: rhs} }
	hand := []struct {
		id string
		ss []*pstmt
	}{
		{"elseif_chain", []*pstmt{{kind: "if", cond: c(1), body: []*pstmt{o(10)}, elifs: []pelif{{c(2), []*pstmt{o(11)}}, {c(3), []*pstmt{o(12)}}, {c(4), []*pstmt{o(13)}}}, hasEl: true, els: []*pstmt{o(14)}}, o(15)}},
		{"continue_runs_step", []*pstmt{{kind: "for", lv: "i", bound: "n", body: []*pstmt{o(1), {kind: "if", cond: c(2), body: []*pstmt{{kind: "continue"}}}, as("x", "+=", "1"), o(3)}}, o(4), as("y", "=", "i")}},
		{"break_innermost", []*pstmt{{kind: "for", lv: "i", bound: "n", body: []*pstmt{{kind: "for", lv: "j", bound: "2", body: []*pstmt{o(1), {kind: "if", cond: c(2), body: []*pstmt{{kind: "break"}}}, o(3)}}, o(4)}}, o(5)}},
		{"return_depth3", []*pstmt{{kind: "for", lv: "i", bound: "n", body: []*pstmt{{kind: "if", cond: c(1), body: []*pstmt{{kind: "forrange", lv: "p", body: []*pstmt{o(2), {kind: "if", cond: c(3), body: []*pstmt{{kind: "return", rhs: "x"}}}, as("x", "+=", "2")}}}}, o(4)}}, o(5)}},
		{"forrange_continue_break", []*pstmt{{kind: "forrange", lv: "p", body: []*pstmt{o(1), {kind: "if", cond: c(2), body: []*pstmt{{kind: "continue"}}}, {kind: "if", cond: c(3), body: []*pstmt{{kind: "break"}}}, as("y", "+=", "p"), o(4)}}, o(5)}},
		{"compound_ops", []*pstmt{as("x", "=", "3"), as("x", "*=", "3"), as("x", "-=", "2"), as("x", "/=", "2"), as("y", ":=", "x"), as("y", "+=", "y"), {kind: "sassign", op: "+=", rhs: "x"}, {kind: "sassign", op: "*=", rhs: "2"}, {kind: "sassign", op: "-=", rhs: "y"}}},
		{"maprange", []*pstmt{{kind: "maprange", lv: "mk", v: "x"}, o(1)}},
		{"injected_loop_var", []*pstmt{{kind: "for", lv: "S.N", bound: "n", body: []*pstmt{o(1), {kind: "if", cond: c(2), body: []*pstmt{{kind: "return", rhs: "x"}}}, as("x", "+=", "1")}}, o(3)}},
		{"injected_loop_var_nested_return", []*pstmt{{kind: "for", lv: "S.N", bound: "3", body: []*pstmt{{kind: "forrange", lv: "p", body: []*pstmt{{kind: "if", cond: c(1), body: []*pstmt{{kind: "return", rhs: "y"}}}, as("y", "+=", "1")}}, o(2)}}, o(3)}},
		{"injected_loop_var_break_continue", []*pstmt{{kind: "for", lv: "S.N", bound: "3", body: []*pstmt{{kind: "if", cond: c(1), body: []*pstmt{{kind: "continue"}}}, {kind: "if", cond: c(2), body: []*pstmt{{kind: "break"}}}, o(3)}}, o(4)}},
		{"bare_return_in_if", []*pstmt{o(1), {kind: "if", cond: c(2), body: []*pstmt{o(3), {kind: "retvoid"}}}, as("x", "+=", "1"), o(4)}},
		{"bare_return_in_for", []*pstmt{{kind: "for", lv: "i", bound: "n", body: []*pstmt{o(1), {kind: "if", cond: c(2), body: []*pstmt{{kind: "retvoid"}}}, as("y", "+=", "1")}}, o(3)}},
		{"bare_return_in_forrange_else", []*pstmt{{kind: "forrange", lv: "p", body: []*pstmt{{kind: "if", cond: c(1), body: []*pstmt{o(2)}, elifs: []pelif{{c(5), []*pstmt{o(6)}}}, hasEl: true, els: []*pstmt{{kind: "retvoid"}}}, o(3)}}, o(4)}},
		{"empty_elseif_body", []*pstmt{{kind: "if", cond: c(1), body: []*pstmt{o(2)}, elifs: []pelif{{c(3), nil}, {c(4), []*pstmt{o(5)}}}, hasEl: true, els: []*pstmt{o(6)}}, o(7)}},
		{"empty_elseif_body_in_for", []*pstmt{{kind: "for", lv: "i", bound: "n", body: []*pstmt{{kind: "if", cond: pcond{kind: "cmp", l: "i", op: "==", r: "0"}, body: []*pstmt{o(1)}, elifs: []pelif{{c(2), nil}}, hasEl: true, els: []*pstmt{as("x", "+=", "i"), o(3)}}}}, o(4)}},
		{"empty_if_and_else_bodies", []*pstmt{{kind: "if", cond: c(1), body: nil, elifs: []pelif{{c(2), []*pstmt{o(3)}}, {c(4), nil}}, hasEl: true, els: nil}, o(5), {kind: "for", lv: "i", bound: "2", body: nil}, as("y", "=", "i")}},
		{"local_from_injected_field", []*pstmt{as("y", "=", "S.N"), as("y", "+=", "3"), o(1), as("x", ":=", "S.N"), as("x", "=", "7"), as("x", "*=", "2"), {kind: "if", cond: c(2), body: []*pstmt{as("y", "=", "S.N"), as("y", "-=", "1")}}, o(3)}},
		{"break_in_elseif", []*pstmt{{kind: "for", lv: "i", bound: "n", body: []*pstmt{o(1), {kind: "if", cond: c(2), body: []*pstmt{o(3)}, elifs: []pelif{{c(4), []*pstmt{{kind: "break"}}}}, hasEl: true, els: []*pstmt{o(5)}}, as("x", "+=", "1"), o(6)}}, o(7)}},
		{"continue_in_elseif", []*pstmt{{kind: "forrange", lv: "p", body: []*pstmt{o(1), {kind: "if", cond: c(2), body: []*pstmt{o(3)}, elifs: []pelif{{c(4), []*pstmt{o(8)}}, {c(5), []*pstmt{{kind: "continue"}}}}}, as("y", "+=", "2"), o(6)}}, o(7)}},
		{"break_continue_in_else", []*pstmt{{kind: "for", lv: "i", bound: "3", body: []*pstmt{{kind: "if", cond: c(1), body: []*pstmt{o(2)}, hasEl: true, els: []*pstmt{{kind: "if", cond: c(3), body: []*pstmt{{kind: "break"}}, hasEl: true, els: []*pstmt{{kind: "continue"}}}}}, o(4)}}, o(5)}},
		{"nested_elseif_break_inner_only", []*pstmt{{kind: "for", lv: "i", bound: "2", body: []*pstmt{{kind: "for", lv: "j", bound: "2", body: []*pstmt{{kind: "if", cond: c(1), body: []*pstmt{o(2)}, elifs: []pelif{{c(3), []*pstmt{{kind: "break"}}}}}, o(4)}}, o(5)}}, o(6)}},
		{"range_key_after_loop", []*pstmt{{kind: "forrange", lv: "p", body: []*pstmt{o(1), {kind: "if", cond: c(2), body: []*pstmt{{kind: "break"}}}}}, as("y", "=", "p"), o(3), {kind: "forrange", lv: "q", body: []*pstmt{o(4)}}, as("x", "=", "q")}},
		{"for_var_after_loop", []*pstmt{{kind: "for", lv: "i", bound: "n", body: []*pstmt{{kind: "if", cond: c(1), body: []*pstmt{{kind: "break"}}}, o(2)}}, as("x", "=", "i"), {kind: "if", cond: pcond{kind: "cmp", l: "i", op: ">", r: "1"}, body: []*pstmt{as("y", "=", "i")}}}},
		{"if_no_else", []*pstmt{{kind: "if", cond: c(1), body: []*pstmt{o(2)}}, {kind: "if", cond: pcond{kind: "cmp", l: "x", op: "==", r: "0"}, body: []*pstmt{o(3)}, hasEl: true, els: []*pstmt{o(4)}}, o(5)}},
	}
	for _, h := range hand {
		name := "Q_" + h.id
		src, text := c02Program(name, h.ss, h.id)
		b.WriteString(src)
		fam.Instances = append(fam.Instances, Instance{Func: name, Stratum: "clause:" + h.id, Desc: h.id, Text: text, Expect: []string{"executed"}})
	}
	// visibility: a local first assigned inside a block is visible afterwards; unassigned -> error
	b.WriteString(`
// a local is visible from its first assignment to the end of the rule regardless of nesting
func Q_visibility() {
	cs := newCondSrc()
	dc := context.NewDataContext()
	dc.Add("c", func(id int64) bool { return cs.get(int(id)) })
	rb := builder.NewRuleBuilder(dc)
	must(rb.BuildRuleFromString("rule \"r\" begin\n if c(1) {\n  for i = 0; i < 1; i += 1 {\n   z = 5\n  }\n }\n return z + i\nend\n"), "build")
	eng := engine.NewGengine()
	err := eng.Execute(rb, true)
	res, _ := eng.GetRulesResultMap()
	vnd.Reach("executed")
	taken := cs.vals["c1_0"]
	vnd.Assert(vnd.Iff(err == nil, taken), "defined iff the assigning block ran")
	if err == nil {
		x, ok := res["r"].(int64)
		vnd.Assert(ok, "type")
		vnd.Assert(x == 6, "value assigned two levels down, loop variable after the loop")
	}
}
`)
	// before its first assignment a local is not there: reading it in any position fails the rule
	for k, stmt := range []string{"cnt += 5", "cnt -= 5", "cnt *= 5", "cnt /= 5", "y = cnt", "y = 1 + cnt", "if cnt > 0 {\n  t(9)\n }", "t(cnt)", "for i = 0; i < cnt; i += 1 {\n  t(9)\n }", "s += \"ab\""} {
		name := fmt.Sprintf("Q_unbound_%d", k)
		text := "rule \"r\" begin\n t(1)\n if init {\n  cnt = 10\n  s = \"x\"\n }\n " + stmt + "\n t(2)\n return 1\nend\n"
		fmt.Fprintf(&b, `
// %s with the local assigned only when init holds
func %s() {
	init := vnd.Bool("init")
	dc := context.NewDataContext()
	dc.Add("t", func(id int64) { obs(int(id)) })
	dc.Add("init", init)
	rb := builder.NewRuleBuilder(dc)
	must(rb.BuildRuleFromString(%q), "build")
	eng := engine.NewGengine()
	err := eng.Execute(rb, true)
	res, _ := eng.GetRulesResultMap()
	vnd.Reach("executed")
	vnd.Assert(vnd.Iff(err == nil, init), "a local can be read iff it was assigned before")
	_, has := res["r"]
	vnd.Assert(has == init, "the rule reaches its return iff the local was assigned")
	vnd.Assert(vnd.Iff(vnd.Count("t2") == 1, init), "no later statement runs after the read of an unassigned local")
}
`, strings.ReplaceAll(stmt, "\n", " "), name, text)
		fam.Instances = append(fam.Instances, Instance{Func: name, Stratum: "clause:unbound", Desc: "unassigned local in: " + strings.ReplaceAll(stmt, "\n", " "), Text: text, Expect: []string{"executed"}})
	}
	b.WriteString(`
// an execution that bound a local and then failed leaves nothing behind: the next execution of the rule
// (other branch) finds the local unassigned
func Q_unbound_after_failed_execution() {
	dc := context.NewDataContext()
	dc.Add("t", func(id int64) { obs(int(id)) })
	dc.Add("first", true)
	rb := builder.NewRuleBuilder(dc)
	must(rb.BuildRuleFromString("rule \"r\" begin\n if first {\n  tmp = 100\n  tmp += 11\n  t(1)\n  y = nosuch\n }\n t(2)\n out = tmp\n t(3)\n return out\nend\n"), "build")
	eng := engine.NewGengine()
	err := eng.Execute(rb, true)
	vnd.Assert(err != nil && vnd.Count("t1") == 1 && vnd.Count("t2") == 0, "the first execution binds the local and then fails")
	for round := 0; round < 3; round++ {
		dc.Add("first", false)
		err = eng.Execute(rb, true)
		res, _ := eng.GetRulesResultMap()
		vnd.Assert(err != nil, "a local can be read iff it was assigned before, in this execution")
		_, has := res["r"]
		vnd.Assert(!has && vnd.Count("t3") == 0, "no later statement runs after the read of an unassigned local")
	}
	vnd.Reach("executed")
}
`)
	b.WriteString(`
type qHolder struct{ F int64 }

// both binding operators on injected targets (a pointer-injected scalar, a field of an injected struct) reach the host
func Q_bind_operators_on_injected() {
	for _, op := range []string{"=", ":="} {
		x0, c := vnd.Int64("x0"), vnd.Int64("c")
		n := x0
		h := &qHolder{F: x0}
		dc := context.NewDataContext()
		dc.Add("N", &n)
		dc.Add("H", h)
		dc.Add("c", c)
		rb := builder.NewRuleBuilder(dc)
		must(rb.BuildRuleFromString("rule \"r\" begin\n N "+op+" c\n H.F "+op+" c + 2\n loc "+op+" c\n loc += 2\n return loc\nend\n"), "build")
		eng := engine.NewGengine()
		err := eng.Execute(rb, true)
		res, _ := eng.GetRulesResultMap()
		vnd.Assert(err == nil, "binding an injected target succeeds")
		vnd.Assert(n == c, "= and := bind the injected target: the host observes the value")
		vnd.Assert(h.F == c+2, "= and := bind the injected field: the host observes the value")
		r, ok := res["r"].(int64)
		vnd.Assert(ok && r == c+2, "the rule reads back what it bound")
	}
	vnd.Reach("executed")
}
`)
	fam.Instances = append(fam.Instances, Instance{Func: "Q_bind_operators_on_injected", Stratum: "clause:bind", Desc: "= and := on pointer-injected and field targets", Expect: []string{"executed"}})
	fam.Instances = append(fam.Instances, Instance{Func: "Q_unbound_after_failed_execution", Stratum: "clause:unbound", Desc: "a failed execution's locals are gone in the next execution", Expect: []string{"executed"}})
	b.WriteString(`
// forRange over a map visits the keys the map had when the loop started, each once, whatever the body adds or removes
func Q_maprange_mutation() {
	for _, body := range []string{"  cnt += 1\n  nk = k + 100\n  mp[nk] = 1\n", "  cnt += 1\n  drop(k)\n", "  cnt += 1\n  mp[k] = 9\n"} {
		mp := map[int64]int64{1: 10, 2: 20, 3: 30}
		dc := context.NewDataContext()
		dc.Add("mp", mp)
		dc.Add("drop", func(k int64) {
			for other := range mp {
				if other != k {
					delete(mp, other)
				}
			}
		})
		rb := builder.NewRuleBuilder(dc)
		must(rb.BuildRuleFromString("rule \"r\" begin\n cnt = 0\n forRange k := mp {\n"+body+" }\n return cnt\nend\n"), "build")
		eng := engine.NewGengine()
		err := eng.Execute(rb, true)
		res, _ := eng.GetRulesResultMap()
		n, ok := res["r"].(int64)
		vnd.Assert(err == nil && ok, "the rule succeeds")
		vnd.Assert(n == 3, "every key the map had at loop start is visited exactly once")
	}
	vnd.Reach("executed")
}
`)
	fam.Instances = append(fam.Instances, Instance{Func: "Q_maprange_mutation", Stratum: "clause:maprange", Desc: "forRange over a map whose body adds, removes or overwrites entries", Expect: []string{"executed"}})
	fam.Instances = append(fam.Instances, Instance{Func: "Q_visibility", Stratum: "clause:visibility", Desc: "local visibility across nesting", Expect: []string{"executed"}})
	head := "package " + pkg + "\n\nimport (\n\t\"strconv\"\n\n\t\"github.com/bilibili/gengine/builder\"\n\t\"github.com/bilibili/gengine/context\"\n\t\"github.com/bilibili/gengine/engine\"\n\t\"github.com/bilibili/gengine/zz_verif/vnd\"\n)\n\nfunc must(err error, what string) {\n\tif err != nil {\n\t\tvnd.Assert(false, what+\" must succeed\")\n\t}\n}\n" + c02Lib
	fam.Files[repoDir+"/zz_verif/"+pkg+"/h.go"] = head + b.String()
	fam.TestFile = repoDir + "/zz_verif/" + pkg + "/zz_replay_test.go"
	fam.TestSrc = testFile(pkg, fam.Instances)
	return fam, nil
}
