package main

import (
	"fmt"
	"strings"

	"symgo/interp"
)

func init() { generators["C11"] = genC11 }

type modelCall struct {
	name string // short name
	fn   string // engine method (for strata and the anchor check)
	call string // Go expression using eng, rb
	n    int    // rules in the set
	conc bool
}

func namesLit(n int) string {
	var q []string
	for i := n - 1; i >= 0; i-- {
		q = append(q, fmt.Sprintf("\"r%d\"", i))
	}
	return "[]string{" + strings.Join(q, ", ") + "}"
}

// engineModels lists every execution entry point of Gengine over a set of n rules.
func engineModels() []modelCall {
	n2, n3 := namesLit(2), namesLit(3)
	return []modelCall{
		{"Execute", "Execute", "eng.Execute(rb, true)", 2, false},
		{"ExecuteStop", "Execute", "eng.Execute(rb, false)", 2, false},
		{"StopTag", "ExecuteWithStopTagDirect", "eng.ExecuteWithStopTagDirect(rb, true, &engine.Stag{})", 2, false},
		{"Concurrent", "ExecuteConcurrent", "eng.ExecuteConcurrent(rb)", 2, true},
		{"Mix", "ExecuteMixModel", "eng.ExecuteMixModel(rb)", 3, true},
		{"MixStopTag", "ExecuteMixModelWithStopTagDirect", "eng.ExecuteMixModelWithStopTagDirect(rb, &engine.Stag{})", 3, true},
		{"Selected", "ExecuteSelectedRules", "eng.ExecuteSelectedRules(rb, " + n2 + ")", 2, false},
		{"SelectedControl", "ExecuteSelectedRulesWithControl", "eng.ExecuteSelectedRulesWithControl(rb, false, " + n2 + ")", 2, false},
		{"SelectedAsGiven", "ExecuteSelectedRulesWithControlAsGivenSortedName", "eng.ExecuteSelectedRulesWithControlAsGivenSortedName(rb, true, " + n2 + ")", 2, false},
		{"SelectedStopTag", "ExecuteSelectedRulesWithControlAndStopTag", "eng.ExecuteSelectedRulesWithControlAndStopTag(rb, true, &engine.Stag{}, " + n2 + ")", 2, false},
		{"SelectedStopTagAsGiven", "ExecuteSelectedRulesWithControlAndStopTagAsGivenSortedName", "eng.ExecuteSelectedRulesWithControlAndStopTagAsGivenSortedName(rb, true, &engine.Stag{}, " + n2 + ")", 2, false},
		{"SelectedConcurrent", "ExecuteSelectedRulesConcurrent", "eng.ExecuteSelectedRulesConcurrent(rb, " + n2 + ")", 2, true},
		{"SelectedMix", "ExecuteSelectedRulesMixModel", "eng.ExecuteSelectedRulesMixModel(rb, " + n3 + ")", 3, true},
		{"Inverse", "ExecuteInverseMixModel", "eng.ExecuteInverseMixModel(rb)", 3, true},
		{"SelectedInverse", "ExecuteSelectedRulesInverseMixModel", "eng.ExecuteSelectedRulesInverseMixModel(rb, " + n3 + ")", 3, true},
		{"NSortMConc", "ExecuteNSortMConcurrent", "eng.ExecuteNSortMConcurrent(1, 1, rb, true)", 2, true},
		{"NConcMSort", "ExecuteNConcurrentMSort", "eng.ExecuteNConcurrentMSort(1, 1, rb, true)", 2, true},
		{"NConcMConc", "ExecuteNConcurrentMConcurrent", "eng.ExecuteNConcurrentMConcurrent(1, 1, rb, false)", 2, true},
		{"SelNSortMConc", "ExecuteSelectedNSortMConcurrent", "eng.ExecuteSelectedNSortMConcurrent(1, 1, rb, true, " + n2 + ")", 2, true},
		{"SelNConcMSort", "ExecuteSelectedNConcurrentMSort", "eng.ExecuteSelectedNConcurrentMSort(1, 1, rb, false, " + n2 + ")", 2, true},
		{"SelNConcMConc", "ExecuteSelectedNConcurrentMConcurrent", "eng.ExecuteSelectedNConcurrentMConcurrent(1, 1, rb, true, " + n2 + ")", 2, true},
		{"DAG", "ExecuteDAGModel", "eng.ExecuteDAGModel(rb, [][]string{{\"r0\"}, {\"r1\"}})", 2, true},
		{"DAGWide", "ExecuteDAGModel", "eng.ExecuteDAGModel(rb, [][]string{{\"r1\", \"r0\"}})", 2, true},
	}
}

func genC11(tier string, seed int64) (*Family, error) {
	pkg := "c11"
	fam := &Family{
		Prop:    "C11",
		PkgPath: modPath + "/zz_verif/" + pkg,
		Files:   map[string]string{},
		Bounds:  map[string]interface{}{"rules_per_set": "2 (3 for mix / inverse models)", "calls_per_engine": 2, "return_shapes": "value, bare, failing return expression, none, fault; nested in if / for / forRange"},
		Cfg:     interp.Config{MaxSteps: 3_000_000, TrackFields: []string{"engine.Gengine.returnResult"}, TrackAllocs: []string{"*"}},
		Functions: []string{"engine.Gengine).addResult", "base.RuleEntity).Execute", "base.Statements).Evaluate", "base.ReturnStatement).Evaluate",
			"base.ForStmt).Evaluate", "base.ForRangeStmt).Evaluate", "engine.Gengine).ExecuteDAGModel"},
	}
	fam.Assumptions = []string{
		"saliences are concrete and distinct here (ordering is the subject of C04/C05)",
		"two consecutive calls on one engine; longer call sequences follow because the only state carried over is the map, which every call replaces",
		"accesses to Gengine.returnResult are logged as events and included in the join query",
	}
	fam.Outside = []string{"more than two calls per engine", "rule sets larger than 3", "pool wrappers (C06)"}
	var b strings.Builder
	// staged models whose first stage holds two rules, stop-on-error: a failing first-stage rule must not let the
	// call return while the other one still runs
	wide := []modelCall{
		{"NConcMConc21", "ExecuteNConcurrentMConcurrent", "eng.ExecuteNConcurrentMConcurrent(2, 1, rb, false)", 3, true},
		{"NConcMSort21", "ExecuteNConcurrentMSort", "eng.ExecuteNConcurrentMSort(2, 1, rb, false)", 3, true},
	}
	for _, m := range append(engineModels(), wide...) {
		name := "H_" + m.name
		opts, q1, h1, f2 := "gqh", `symFlags("q", n)`, `symFlags("h", n)`, `symFlags("ff", n)`
		if m.n >= 3 {
			// three-rule models: fewer return shapes per rule to keep the path count down
			opts, q1, h1, f2 = "g", "allFalse(n)", "allFalse(n)", "allFalse(n)"
		}
		fmt.Fprintf(&b, `
// %s: result map after two calls of %s
func %s() {
	n := %d
	s := fixedSal(n)
	dc := newDC(nil)
	g, q, h, f, v := symFlags("g", n), %s, %s, symFlags("f", n), symVals("v", n)
	addFlags(dc, "g", g)
	addFlags(dc, "q", q)
	addFlags(dc, "h", h)
	addFlags(dc, "f", f)
	addVals(dc, "v", v)
	rb := buildText(dc, rulesTextOpt(n, s, %q))
	eng := engine.NewGengine()
	base := countsOf(n)
	err := %s
	_ = err
	vnd.Event("ret")
	res, _ := eng.GetRulesResultMap()
	vnd.RequireJoined("ret")
	vnd.NoRaces("var:")
	vnd.StopIfViolated()
	vnd.Reach("first call")
	checkResult(res, n, base, g, q, h, f, v)
	// second call, fresh data
	g2, f2, v2 := symFlags("gg", n), %s, symVals("vv", n)
	addFlags(dc, "g", g2)
	addFlags(dc, "q", allFalse(n))
	addFlags(dc, "h", allFalse(n))
	addFlags(dc, "f", f2)
	addVals(dc, "v", v2)
	base = countsOf(n)
	err = %s
	vnd.Event("ret2")
	res2, _ := eng.GetRulesResultMap()
	vnd.RequireJoined("ret2")
	vnd.StopIfViolated()
	vnd.Reach("second call")
	checkResult(res2, n, base, g2, allFalse(n), allFalse(n), f2, v2)
}
`, name, m.fn, name, m.n, q1, h1, opts, m.call, f2, m.call)
		fam.Instances = append(fam.Instances, Instance{Func: name, Stratum: m.fn, Desc: "result map after two calls of " + m.fn, Expect: []string{"first call", "second call"}})
	}
	// a rule that sets the stop tag and returns still gets its entry (all four stop-tag entry points)
	for _, d := range []struct{ id, call string }{
		{"StopTag", "eng.ExecuteWithStopTagDirect(rb, true, stag)"},
		{"SelectedStopTag", "eng.ExecuteSelectedRulesWithControlAndStopTag(rb, true, stag, []string{\"r0\", \"r1\"})"},
		{"SelectedStopTagAsGiven", "eng.ExecuteSelectedRulesWithControlAndStopTagAsGivenSortedName(rb, true, stag, []string{\"r1\", \"r0\"})"},
		{"MixStopTag", "eng.ExecuteMixModelWithStopTagDirect(rb, stag)"},
	} {
		name := "T_" + d.id
		fmt.Fprintf(&b, `
// %s: rules that set the stop tag and return
func %s() {
	n := 2
	s := fixedSal(n)
	dc := newDC(nil)
	g, t, v := symFlags("g", n), symFlags("t", n), symVals("v", n)
	addFlags(dc, "g", g)
	addFlags(dc, "t", t)
	addFlags(dc, "f", allFalse(n))
	addVals(dc, "v", v)
	stag := &engine.Stag{}
	dc.Add("stag", stag)
	rb := buildText(dc, rulesTextOpt(n, s, "tg"))
	eng := engine.NewGengine()
	base := countsOf(n)
	err := %s
	_ = err
	vnd.Event("ret")
	res, _ := eng.GetRulesResultMap()
	vnd.RequireJoined("ret")
	vnd.StopIfViolated()
	vnd.Reach("first call")
	vnd.Reach("second call")
	checkResult(res, n, base, g, allFalse(n), allFalse(n), allFalse(n), v)
}
`, d.id, name, d.call)
		fam.Instances = append(fam.Instances, Instance{Func: name, Stratum: "stop-tag:" + d.id, Desc: d.id + ": a rule sets the stop tag and returns", Expect: []string{"first call"}})
	}
	b.WriteString(`
// break and continue inside loops do not count as returns: the entry holds what the later return yields
func H_break_continue_then_return() {
	dc := newDC(nil)
	k := vnd.Int64("k")
	vnd.Assume(vnd.And(k >= 0, k <= 3))
	dc.Add("k", k)
	dc.Add("arr", []int64{1, 2, 3})
	rb := buildText(dc, "rule \"brk\" salience 9 begin\n for i = 0; i < 3; i += 1 {\n  if i == k {\n   break\n  }\n }\n return 7\nend\nrule \"cnt\" salience 8 begin\n n = 0\n forRange q := arr {\n  if q == k {\n   continue\n  }\n  n += 1\n }\n return n\nend\nrule \"only\" salience 7 begin\n forRange q := arr {\n  break\n }\nend\n")
	for model := 0; model < 3; model++ {
		eng := engine.NewGengine()
		var err error
		switch model {
		case 0:
			err = eng.Execute(rb, true)
		case 1:
			err = eng.ExecuteConcurrent(rb)
		default:
			err = eng.ExecuteSelectedRules(rb, []string{"only", "cnt", "brk"})
		}
		res, _ := eng.GetRulesResultMap()
		vnd.Assert(err == nil, "the rules succeed")
		x, ok := res["brk"].(int64)
		vnd.Assert(ok && x == 7, "a rule that left a loop through break returns what its return statement yields")
		y, ok2 := res["cnt"].(int64)
		want := int64(3) // forRange yields the indices 0, 1, 2
		if k >= 0 && k <= 2 {
			want = 2
		}
		vnd.Assert(ok2 && y == want, "a rule that used continue returns what its return statement yields")
		_, has := res["only"]
		vnd.Assert(!has, "a rule that only breaks out of a loop has no entry")
		vnd.Assert(len(res) == 2, "no foreign or stale entries")
	}
	vnd.Reach("first call")
	vnd.Reach("second call")
}
`)
	fam.Instances = append(fam.Instances, Instance{Func: "H_break_continue_then_return", Stratum: "nested:break-continue", Desc: "break / continue before a return", Expect: []string{"first call"}})
	// selected entry points with an unknown name in front of a single existing one (and of two)
	for _, m := range engineModels() {
		if !strings.Contains(m.call, namesLit(2)) && !strings.Contains(m.call, namesLit(3)) {
			continue
		}
		for k, lst := range []string{"[]string{\"zz\", \"r1\"}", "[]string{\"zz\", \"r1\", \"r0\"}", "[]string{\"r1\", \"zz\"}"} {
			name := fmt.Sprintf("U_%s_%d", m.name, k)
			call := strings.ReplaceAll(strings.ReplaceAll(m.call, namesLit(3), lst), namesLit(2), lst)
			fmt.Fprintf(&b, `
// %s with names %s: entries only under the names of rules that returned
func %s() {
	n := %d
	s := fixedSal(n)
	dc := newDC(nil)
	g, f, v := symFlags("g", n), symFlags("f", n), symVals("v", n)
	addFlags(dc, "g", g)
	addFlags(dc, "q", allFalse(n))
	addFlags(dc, "h", allFalse(n))
	addFlags(dc, "f", f)
	addVals(dc, "v", v)
	rb := buildText(dc, rulesTextOpt(n, s, "g"))
	eng := engine.NewGengine()
	base := countsOf(n)
	err := %s
	_ = err
	vnd.Event("ret")
	res, _ := eng.GetRulesResultMap()
	vnd.RequireJoined("ret")
	vnd.StopIfViolated()
	vnd.Reach("first call")
	vnd.Reach("second call")
	checkResult(res, n, base, g, allFalse(n), allFalse(n), f, v)
}
`, m.fn, lst, name, m.n, call)
			fam.Instances = append(fam.Instances, Instance{Func: name, Stratum: m.fn + ":unknown-name", Desc: m.fn + " with names " + lst, Expect: []string{"first call"}})
		}
	}
	// a call through another entry point must not leave entries of the previous call behind
	second := []struct{ id, call string }{
		{"DAGEmpty", "eng.ExecuteDAGModel(rb, nil)"},
		{"DAGEmptyRows", "eng.ExecuteDAGModel(rb, [][]string{})"},
		{"DAGUnknownOnly", "eng.ExecuteDAGModel(rb, [][]string{{\"zz\"}})"},
		{"DAGOne", "eng.ExecuteDAGModel(rb, [][]string{{\"r1\"}})"},
		{"SelectedUnknown", "eng.ExecuteSelectedRules(rb, []string{\"zz\"})"},
		{"SelectedEmpty", "eng.ExecuteSelectedRulesConcurrent(rb, nil)"},
		{"NMRejected", "eng.ExecuteNSortMConcurrent(0, 1, rb, true)"},
		{"SelNMRejected", "eng.ExecuteSelectedNConcurrentMSort(1, 1, rb, true, []string{\"r0\"})"},
		{"MixOne", "eng.ExecuteSelectedRulesMixModel(rb, []string{\"r1\"})"},
		{"InverseUnknown", "eng.ExecuteSelectedRulesInverseMixModel(rb, []string{\"zz\"})"},
		{"Concurrent", "eng.ExecuteConcurrent(rb)"},
	}
	// round 7 (seed C11-m13): every selected entry point called with a name list that resolves to nothing
	// (unknown names only, empty list): the call ends early but must still start from a fresh map
	for _, m := range engineModels() {
		if !strings.Contains(m.call, namesLit(2)) && !strings.Contains(m.call, namesLit(3)) {
			continue
		}
		for _, lst := range []struct{ id, lit string }{{"UnknownOnly", "[]string{\"zz\"}"}, {"NoNames", "[]string{}"}} {
			call := strings.ReplaceAll(strings.ReplaceAll(m.call, namesLit(3), lst.lit), namesLit(2), lst.lit)
			second = append(second, struct{ id, call string }{m.name + "_" + lst.id, call})
		}
	}
	for _, sc := range second {
		name := "H_then_" + sc.id
		fmt.Fprintf(&b, `
// Execute, then %s on the same engine
func %s() {
	n := 2
	s := fixedSal(n)
	dc := newDC(nil)
	g, f, v := symFlags("g", n), symFlags("f", n), symVals("v", n)
	addFlags(dc, "g", g)
	addFlags(dc, "f", f)
	addVals(dc, "v", v)
	rb := buildText(dc, rulesTextOpt(n, s, "g"))
	eng := engine.NewGengine()
	base := countsOf(n)
	err := eng.Execute(rb, true)
	res, _ := eng.GetRulesResultMap()
	vnd.Reach("first call")
	checkResult(res, n, base, g, allFalse(n), allFalse(n), f, v)
	g2, v2 := symFlags("gg", n), symVals("vv", n)
	addFlags(dc, "g", g2)
	addFlags(dc, "f", allFalse(n))
	addVals(dc, "v", v2)
	base = countsOf(n)
	err = %s
	_ = err
	vnd.Event("ret2")
	res2, _ := eng.GetRulesResultMap()
	vnd.RequireJoined("ret2")
	vnd.StopIfViolated()
	vnd.Reach("second call")
	checkResult(res2, n, base, g2, allFalse(n), allFalse(n), allFalse(n), v2)
}
`, sc.id, name, sc.call)
		fam.Instances = append(fam.Instances, Instance{Func: name, Stratum: "sequence:" + sc.id, Desc: "Execute then " + sc.id + " on one engine", Expect: []string{"first call", "second call"}})
	}
	// returns nested in control flow (sort model)
	nested := []struct{ id, body, want string }{
		{"for", " for i = 0; i < 4; i += 1 {\n  if i == k {\n   return i\n  }\n }\n", "vnd.And(k >= 0, k < 4)|k"},
		{"forrange", " forRange idx := arr {\n  if idx == k {\n   return arr[idx]\n  }\n }\n", "vnd.And(k >= 0, k < 3)|100 + k"},
		{"ifif", " if p {\n  if k == 2 {\n   return k\n  }\n }\n", "vnd.And(p, k == 2)|k"},
		{"elseif", " if p {\n  x = 1\n } else if k == 1 {\n  return 5\n } else {\n  return 6\n }\n", "!p|five6"},
	}
	for _, c := range nested {
		name := "H_nested_" + c.id
		parts := strings.Split(c.want, "|")
		valExpr := parts[1]
		if valExpr == "five6" {
			valExpr = "pick56(k)"
		}
		text := "rule \"r0\" begin\n ev(\"r0.s\")\n" + c.body + " ev(\"r0.e\")\nend\n"
		fmt.Fprintf(&b, `
// return nested in %s
func %s() {
	dc := newDC(nil)
	k := vnd.Int64("k")
	p := vnd.Bool("p")
	dc.Add("k", k)
	dc.Add("p", p)
	arr := []int64{100, 101, 102}
	dc.Add("arr", arr)
	rb := buildText(dc, %q)
	eng := engine.NewGengine()
	err := eng.Execute(rb, true)
	res, _ := eng.GetRulesResultMap()
	vnd.Reach("first call")
	vnd.Reach("second call")
	vnd.Assert(err == nil, "no error")
	x, has := res["r0"]
	want := %s
	vnd.Assert(vnd.Iff(has, want), "entry iff the nested return was reached")
	vnd.Assert(vnd.Iff(vnd.Count("r0.e") == 1, !want), "return ends the rule at once")
	if has {
		y, ok := x.(int64)
		vnd.Assert(ok, "returned value type")
		vnd.Assert(y == %s, "returned value")
	}
}
`, c.id, name, text, parts[0], valExpr)
		fam.Instances = append(fam.Instances, Instance{Func: name, Stratum: "nested:" + c.id, Desc: "return nested in " + c.id, Text: text, Expect: []string{"first call"}})
	}
	b.WriteString(`
type acct struct {
	Balance int64
	secret  int64
}

// a return whose value cannot be handed out (unexported field) fails the rule: no entry
func H_unexportable_return() {
	dc := newDC(nil)
	dc.Add("acc", &acct{Balance: 5, secret: 9})
	rb := buildText(dc, "rule \"good\" salience 9 begin\n return acc.Balance\nend\nrule \"leak\" salience 5 begin\n return acc.secret\nend\nrule \"plain\" salience 1 begin\n x = 1\nend\n")
	for model := 0; model < 4; model++ {
		eng := engine.NewGengine()
		var err error
		switch model {
		case 0:
			err = eng.Execute(rb, true)
		case 1:
			err = eng.ExecuteConcurrent(rb)
		case 2:
			err = eng.ExecuteMixModel(rb)
		default:
			err = eng.ExecuteSelectedRules(rb, []string{"leak", "good", "plain"})
		}
		res, _ := eng.GetRulesResultMap()
		vnd.Assert(err != nil, "the rule whose value cannot be returned fails")
		vnd.Assert(len(res) == 1, "only the rule that returned has an entry")
		x, ok := res["good"].(int64)
		vnd.Assert(ok && x == 5, "the returned value")
	}
	vnd.Reach("first call")
	vnd.Reach("second call")
}
`)
	fam.Instances = append(fam.Instances, Instance{Func: "H_unexportable_return", Stratum: "nested:unexported", Desc: "return of an unexported field", Expect: []string{"first call"}})
	// the pool's wrappers hand out the same map
	for _, pc := range poolCalls() {
		name := "P_" + pc.name
		call := strings.NewReplacer("{\"a\"}", "{\"r0\"}", "{\"b\"}", "{\"r1\"}", "data[\"req\"]", "g[0]", "data[\"resp\"]", "g[1]", "\"req\"", "\"g0\"", "\"resp\"", "\"g1\"").Replace(pc.call)
		call = strings.ReplaceAll(call, ", true, ", ", pol, ")
		call = strings.ReplaceAll(call, "data, true)", "data, pol)")
		fmt.Fprintf(&b, `
// pool.%s: the map handed to the caller
func %s() {
	n := 2
	g, q, h, f, v := symFlags("g", n), symFlags("q", n), symFlags("h", n), symFlags("f", n), symVals("v", n)
	pol := vnd.Bool("pol")
	_ = pol
	apis := map[string]interface{}{"ev": func(x string) { vnd.Event(x) }, "one": int64(1), "zero": int64(0)}
	for i := 0; i < n; i++ {
		k := itoa(i)
		apis["g"+k], apis["q"+k], apis["h"+k], apis["f"+k], apis["v"+k] = false, false, false, false, int64(0)
	}
	gp, e := engine.NewGenginePool(1, 2, engine.SortModel, rulesTextOpt(n, fixedSal(n), "gqh"), apis)
	must(e, "pool construction")
	names := []string{"r1", "r0"}
	stag := &engine.Stag{}
	_, _ = names, stag
	data := map[string]interface{}{}
	for i := 0; i < n; i++ {
		k := itoa(i)
		data["g"+k], data["q"+k], data["h"+k], data["f"+k], data["v"+k] = g[i], q[i], h[i], f[i], v[i]
	}
	base := countsOf(n)
	err, res := %s
	_ = err
	vnd.Event("ret")
	vnd.RequireJoined("ret")
	vnd.StopIfViolated()
	vnd.Reach("first call")
	vnd.Reach("second call")
	if %v {
		checkResult(res, n, base, g, q, h, f, v)
	}
}
`, pc.name, name, call, pc.name != "ExecuteRulesWithSpecifiedEM")
		fam.Instances = append(fam.Instances, Instance{Func: name, Stratum: "pool:" + pc.name, Desc: "result map handed out by pool." + pc.name, Expect: []string{"first call"}})
	}
	b.WriteString(`
type loopBox struct{ I int64 }

// a return of an injected field from inside a loop whose step changes that field: the entry is the value at the return
func H_return_field_in_loop() {
	k := vnd.Int64("k")
	vnd.Assume(vnd.And(k >= 0, k <= 4))
	box := &loopBox{}
	dc := newDC(nil)
	dc.Add("C", box)
	dc.Add("k", k)
	rb := buildText(dc, "rule \"loop\" begin\n for C.I = 0; C.I < 5; C.I += 1 {\n  if C.I == k {\n   return C.I\n  }\n }\nend\n")
	for model := 0; model < 3; model++ {
		eng := engine.NewGengine()
		var err error
		switch model {
		case 0:
			err = eng.Execute(rb, true)
		case 1:
			err = eng.ExecuteConcurrent(rb)
		default:
			err = eng.ExecuteSelectedRules(rb, []string{"loop"})
		}
		res, _ := eng.GetRulesResultMap()
		x, ok := res["loop"].(int64)
		vnd.Assert(err == nil && ok, "the rule returns")
		vnd.Assert(x == k, "the entry is the value the return statement yielded")
	}
	vnd.Reach("first call")
	vnd.Reach("second call")
}

// three calls in flight on a (1,3) pool, each selecting another rule: every caller gets exactly its own entry
func P_three_overlapping_calls() {
	apis := map[string]interface{}{"unused": int64(0)}
	text := ""
	for i := 0; i < 3; i++ {
		n := itoa(i)
		text += "rule \"r" + n + "\" salience " + n + " begin\n hold()\n return v\nend\n"
	}
	gp, e := engine.NewGenginePool(1, 3, engine.SortModel, text, apis)
	must(e, "pool construction")
	var barrier sync.WaitGroup
	barrier.Add(3)
	v := symVals("v", 3)
	res := make([]map[string]interface{}, 3)
	var wg sync.WaitGroup
	for k := 0; k < 3; k++ {
		k := k
		wg.Add(1)
		go func() {
			defer wg.Done()
			_, res[k] = gp.ExecuteSelectedRules(map[string]interface{}{"v": v[k], "hold": func() {
				barrier.Done()
				barrier.Wait() // every call is inside its rule before any returns
			}}, []string{"r" + itoa(k)})
		}()
	}
	wg.Wait()
	vnd.Quiesce()
	for k := 0; k < 3; k++ {
		x, ok := res[k]["r"+itoa(k)].(int64)
		vnd.Assert(ok && x == v[k], "the caller's own rule returned into the caller's map")
		vnd.Assert(len(res[k]) == 1, "no foreign or stale entries")
	}
	vnd.Reach("first call")
	vnd.Reach("second call")
}
`)
	fam.Instances = append(fam.Instances, Instance{Func: "H_return_field_in_loop", Stratum: "nested:aliased-field", Desc: "return of an injected field that the loop step modifies", Expect: []string{"first call"}},
		Instance{Func: "P_three_overlapping_calls", Stratum: "pool:overlap", Desc: "three overlapping pool calls on a (1,3) pool", Expect: []string{"first call"}, Nondet: true})
	b.WriteString("\nfunc pick56(k int64) int64 {\n\tif k == 1 {\n\t\treturn 5\n\t}\n\treturn 6\n}\n")
	finishFamily(fam, pkg, b.String())
	for p, src := range fam.Files {
		if strings.HasSuffix(p, "/c11/h.go") {
			fam.Files[p] = strings.Replace(src, "import (", "import (\n\t\"sync\"\n", 1)
		}
	}
	return fam, nil
}
