package main

import (
	"fmt"
	"math/rand"
	"strings"

	"symgo/interp"
)

func init() { generators["C10"] = genC10 }

// poolLib is the harness library for checks that live in package engine
// (they need the pool's unexported state).
const poolLib = `
var zzLastVer = map[string]int64{}
var zzRunOrder []string

var zzVerMu sync.Mutex

// zzFree / zzAdd read the pool's lists under the pool's own locks.
func zzFree(gp *GenginePool) []*gengineWrapper {
	gp.runningLock.Lock()
	defer gp.runningLock.Unlock()
	return append([]*gengineWrapper(nil), gp.freeGengines...)
}

func zzAdd(gp *GenginePool) []*gengineWrapper {
	gp.additionLock.Lock()
	defer gp.additionLock.Unlock()
	return append([]*gengineWrapper(nil), gp.additionGengines...)
}

func zzVer(name string, v int64) {
	zzVerMu.Lock() // rules of the concurrent models call this from several goroutines
	zzLastVer[name] = v
	zzRunOrder = append(zzRunOrder, name)
	zzVerMu.Unlock()
	vnd.Event(name + "#" + strconv.Itoa(int(v)))
}

func zzApis() map[string]interface{} {
	return map[string]interface{}{
		"ver": zzVer,
		"ev":  func(s string) { vnd.Event(s) },
	}
}

func zzRule(name string, ver int, sal string) string {
	return "rule \"" + name + "\" \"d" + name + "\" salience " + sal + "\nbegin\n ver(\"" + name + "\", " + strconv.Itoa(ver) + ")\nend\n"
}

// the initially installed set: a (salience 9), b (salience 5), version 1
func zzBaseText() string { return zzRule("a", 1, "9") + zzRule("b", 1, "5") }

func zzBuilder() *builder.RuleBuilder {
	dc := context.NewDataContext()
	for k, v := range zzApis() {
		dc.Add(k, v)
	}
	rb := builder.NewRuleBuilder(dc)
	if e := rb.BuildRuleFromString(zzBaseText()); e != nil {
		vnd.Assert(false, "base build must succeed")
	}
	return rb
}

func zzPool(min, max int64, em int) *GenginePool {
	gp, e := NewGenginePool(min, max, em, zzBaseText(), zzApis())
	if e != nil {
		vnd.Assert(false, "pool construction must succeed")
	}
	return gp
}

type zzSnap struct {
	kc    *base.KnowledgeContext
	ents  map[string]*base.RuleEntity
	order []*base.RuleEntity
	idx   map[string]int
}

func zzSnapKc(kc *base.KnowledgeContext) zzSnap {
	s := zzSnap{kc: kc, ents: map[string]*base.RuleEntity{}, idx: map[string]int{}}
	for k, v := range kc.RuleEntities {
		s.ents[k] = v
	}
	s.order = append(s.order, kc.SortRules...)
	for k, v := range kc.SortRulesIndexMap {
		s.idx[k] = v
	}
	return s
}

// zzSame: names, bodies and order are exactly those of the snapshot.
func zzSame(kc *base.KnowledgeContext, s zzSnap) {
	vnd.Assert(kc != nil, "a rule set is still installed")
	if kc == nil {
		return
	}
	vnd.Assert(len(kc.RuleEntities) == len(s.ents), "rejected: same names")
	for k, v := range s.ents {
		vnd.Assert(kc.RuleEntities[k] == v, "rejected: same rule bodies")
	}
	vnd.Assert(len(kc.SortRules) == len(s.order), "rejected: same order")
	for k := range s.order {
		if k < len(kc.SortRules) {
			vnd.Assert(kc.SortRules[k] == s.order[k], "rejected: same order")
		}
	}
	vnd.Assert(len(kc.SortRulesIndexMap) == len(s.idx), "rejected: same index")
	for k, v := range s.idx {
		vnd.Assert(kc.SortRulesIndexMap[k] == v, "rejected: same index")
	}
}

// zzVersions runs the sort model on rb and returns name -> version that ran.
func zzVersions(rb *builder.RuleBuilder) map[string]int64 {
	for k := range zzLastVer {
		delete(zzLastVer, k)
	}
	zzRunOrder = nil
	eng := NewGengine()
	_ = eng.Execute(rb, true)
	out := map[string]int64{}
	for k, v := range zzLastVer {
		out[k] = v
	}
	return out
}

func zzWantVersions(got map[string]int64, want map[string]int64, what string) {
	vnd.Assert(len(got) == len(want), what+": exactly the denoted rules are installed")
	for k, v := range want {
		vnd.Assert(got[k] == v, what+": the denoted version of each rule runs")
	}
}

// zzPoolBuilder returns a builder over instance i's rule set with a fresh context.
func zzInstanceVersions(gp *GenginePool, i int) map[string]int64 {
	return zzVersions(gp.rbSlice[i])
}

func zzMust(err error, what string) {
	if err != nil {
		vnd.Assert(false, what+" must succeed")
	}
}
`

func poolHead() string {
	return "package engine\n\nimport (\n\t\"strconv\"\n\t\"sync\"\n\n\t\"github.com/bilibili/gengine/builder\"\n\t\"github.com/bilibili/gengine/context\"\n\t\"github.com/bilibili/gengine/internal/base\"\n\t\"github.com/bilibili/gengine/zz_verif/vnd\"\n)\n\nvar _ = strconv.Itoa\nvar _ = context.NewDataContext\nvar _ *base.RuleEntity\nvar _ *builder.RuleBuilder\n"
}

// finishPoolFamily places the harness into package engine.
func finishPoolFamily(fam *Family, prop string, body string) {
	fam.PkgPath = modPath + "/engine"
	fam.Files[repoDir+"/engine/zz_vh_lib.go"] = poolHead() + poolLib
	fam.Files[repoDir+"/engine/zz_vh_"+strings.ToLower(prop)+".go"] = "package engine\n\nimport (\n\t\"strconv\"\n\n\t\"github.com/bilibili/gengine/builder\"\n\t\"github.com/bilibili/gengine/context\"\n\t\"github.com/bilibili/gengine/internal/base\"\n\t\"github.com/bilibili/gengine/zz_verif/vnd\"\n)\n\nvar _ = strconv.Itoa\nvar _ = context.NewDataContext\nvar _ *base.RuleEntity\nvar _ *builder.RuleBuilder\nvar _ = vnd.Reach\n" + body
	fam.TestFile = repoDir + "/engine/zz_vh_replay_test.go"
	fam.TestSrc = testFile("engine", fam.Instances)
}

func genC10(tier string, seed int64) (*Family, error) {
	fam := &Family{
		Prop: "C10", Files: map[string]string{},
		Bounds: map[string]interface{}{"front_end_outcomes": "all 8 combinations of lexer / grammar / listener error (symbolic)", "concrete_texts": "valid texts, a stray unlexable character at several places, deletion and duplication of every token of a 2-rule text, duplicate names, empty name, empty / blank text, listener-level errors (integer / real overflow, empty map key, empty or duplicate rule name, salience overflow) before, inside and after a rule using every statement kind"},
		Cfg:    interp.Config{MaxSteps: 6_000_000},
		Functions: []string{"builder.RuleBuilder).BuildRuleFromString", "builder.RuleBuilder).BuildRuleWithIncremental", "engine.NewGenginePool", "engine.makeRuleBuilder",
			"engine.GenginePool).UpdatePooledRules", "engine.GenginePool).UpdatePooledRulesIncremental", "engine.getKc", "engine.updateIncremental", "iparser.GengineErrorListener).SyntaxError"},
	}
	fam.Assumptions = []string{
		"method 1: the outcome of lexer, parser and listener is chosen by the harness as three symbolic booleans and delivered to whatever error listeners the entry point registered; accept/reject must then be the same function of the outcome for all five entry points (natively the same outcome is produced by a concrete text built for it)",
		"method 2: a bounded family of concrete texts goes through the real front end (parser bridge) and all five entry points; here the solver only serves path feasibility",
		"installed state before each call: rules a (salience 9) and b (salience 5)",
	}
	fam.Outside = []string{"that lexer, parser and listener return normally on EVERY byte string (the ANTLR front end is not encoded; see DESIGN.md section 8) - only the bounded text family is run"}
	var b strings.Builder
	b.WriteString(`
// zzFiveWays submits text to the five compile entry points, each from the
// installed state {a, b}, and checks all-or-nothing and agreement.
// fullWant / incrWant are the denoted sets when the text is accepted.
func zzFiveWays(text string, fullWant, incrWant map[string]int64) (rejected bool) {
	// 1. builder, full
	rb := zzBuilder()
	s1 := zzSnapKc(rb.Kc)
	e1 := rb.BuildRuleFromString(text)
	rejected = e1 != nil
	if rejected {
		zzSame(rb.Kc, s1)
	} else if fullWant != nil {
		zzWantVersions(zzVersions(rb), fullWant, "full build")
	}
	// 2. builder, incremental
	rb2 := zzBuilder()
	s2 := zzSnapKc(rb2.Kc)
	vnd.ExploreMapOrder(true)
	e2 := rb2.BuildRuleWithIncremental(text)
	vnd.ExploreMapOrder(false)
	vnd.Assert((e2 != nil) == rejected, "incremental build accepts exactly what full build accepts")
	if e2 != nil {
		zzSame(rb2.Kc, s2)
	} else if incrWant != nil {
		zzWantVersions(zzVersions(rb2), incrWant, "incremental build")
	}
	// 3. pool construction
	gp0, e3 := NewGenginePool(1, 2, SortModel, text, zzApis())
	vnd.Assert((e3 != nil) == rejected, "pool construction accepts exactly what full build accepts")
	if e3 == nil && fullWant != nil {
		zzWantVersions(zzInstanceVersions(gp0, 0), fullWant, "pool construction")
		zzWantVersions(zzInstanceVersions(gp0, 1), fullWant, "pool construction (additional instance)")
	}
	// 4. pool, full update
	gp := zzPool(1, 2, SortModel)
	s4 := zzSnapKc(gp.ruleBuilder.Kc)
	e4 := gp.UpdatePooledRules(text)
	vnd.Assert((e4 != nil) == rejected, "pool full update accepts exactly what full build accepts")
	if e4 != nil {
		zzSame(gp.ruleBuilder.Kc, s4)
		zzSame(gp.rbSlice[0].Kc, s4)
		zzSame(gp.rbSlice[1].Kc, s4)
	} else if fullWant != nil {
		zzWantVersions(zzInstanceVersions(gp, 0), fullWant, "pool full update")
		zzWantVersions(zzInstanceVersions(gp, 1), fullWant, "pool full update (additional instance)")
	}
	// 5. pool, incremental update
	gp2 := zzPool(1, 2, SortModel)
	s5 := zzSnapKc(gp2.ruleBuilder.Kc)
	vnd.ExploreMapOrder(true)
	e5 := gp2.UpdatePooledRulesIncremental(text)
	vnd.ExploreMapOrder(false)
	vnd.Assert((e5 != nil) == rejected, "pool incremental update accepts exactly what full build accepts")
	if e5 != nil {
		zzSame(gp2.ruleBuilder.Kc, s5)
		zzSame(gp2.rbSlice[0].Kc, s5)
		zzSame(gp2.rbSlice[1].Kc, s5)
	} else if incrWant != nil {
		zzWantVersions(zzInstanceVersions(gp2, 0), incrWant, "pool incremental update")
		zzWantVersions(zzInstanceVersions(gp2, 1), incrWant, "pool incremental update (additional instance)")
	}
	return rejected
}

// method 1: symbolic front-end outcome
func M1_outcome() {
	lex, gram, lis := vnd.Bool("lex"), vnd.Bool("gram"), vnd.Bool("lis")
	text := vnd.OutcomeText(lex, gram, lis)
	rejected := zzFiveWays(text, map[string]int64{"b": 2, "x": 2}, map[string]int64{"a": 1, "b": 2, "x": 2})
	vnd.Reach("executed")
	vnd.Assert(vnd.Iff(rejected, vnd.Or(lex, vnd.Or(gram, lis))), "a text is rejected iff the front end reported an error of any kind")
}
`)
	fam.Instances = append(fam.Instances, Instance{Func: "M1_outcome", Stratum: "outcome", Desc: "symbolic lexer/grammar/listener outcome through all five entry points", Expect: []string{"executed"}})

	// method 2: concrete texts
	good := "rule \"b\" \"nb\" salience 7\nbegin\n ver(\"b\", 2)\nend\nrule \"x\" \"nx\" salience 3\nbegin\n ver(\"x\", 2)\nend\n"
	type tc struct {
		id, text   string
		wantReject int // 1 reject, 0 accept, -1 unknown (only agreement is checked)
		full, incr string
	}
	fullW, incrW := "map[string]int64{\"b\": 2, \"x\": 2}", "map[string]int64{\"a\": 1, \"b\": 2, \"x\": 2}"
	cases := []tc{
		{"good", good, 0, fullW, incrW},
		{"one_new", "rule \"n\" begin\n ver(\"n\", 2)\nend\n", 0, "map[string]int64{\"n\": 2}", "map[string]int64{\"a\": 1, \"b\": 1, \"n\": 2}"},
		{"replace_a", "rule \"a\" \"x\" salience 1 begin\n ver(\"a\", 2)\nend\n", 0, "map[string]int64{\"a\": 2}", "map[string]int64{\"a\": 2, \"b\": 1}"},
		{"new_before_same_salience_replace", "rule \"aa\" salience 8 begin\n ver(\"aa\", 2)\nend\nrule \"b\" \"nb\" salience 5 begin\n ver(\"b\", 2)\nend\n", 0, "map[string]int64{\"aa\": 2, \"b\": 2}", "map[string]int64{\"a\": 1, \"aa\": 2, \"b\": 2}"},
		{"new_after_same_salience_replace", "rule \"a\" \"na\" salience 9 begin\n ver(\"a\", 2)\nend\nrule \"zz\" salience 20 begin\n ver(\"zz\", 2)\nend\n", 0, "map[string]int64{\"a\": 2, \"zz\": 2}", "map[string]int64{\"a\": 2, \"b\": 1, \"zz\": 2}"},
		{"two_new_one_replace", "rule \"m\" salience 6 begin\n ver(\"m\", 2)\nend\nrule \"b\" salience 5 begin\n ver(\"b\", 2)\nend\nrule \"c\" salience 1 begin\n ver(\"c\", 2)\nend\n", 0, "map[string]int64{\"m\": 2, \"b\": 2, \"c\": 2}", "map[string]int64{\"a\": 1, \"m\": 2, \"b\": 2, \"c\": 2}"},
		{"dup_name", good + "rule \"x\" begin\n ver(\"x\", 3)\nend\n", 1, "nil", "nil"},
		{"dup_name_first", "rule \"b\" begin\n ver(\"b\", 2)\nend\nrule \"b\" begin\n ver(\"b\", 3)\nend\n", 1, "nil", "nil"},
		{"empty_name", "rule \"\" begin\n ver(\"e\", 2)\nend\n", 1, "nil", "nil"},
		{"empty", "", 1, "nil", "nil"},
		{"blank", "  \n\t ", 1, "nil", "nil"},
		{"comment_only", "// nothing here\n", 1, "nil", "nil"},
		{"stray_hash_end", strings.Replace(good, "ver(\"b\", 2)\n", "ver(\"b\", 2) #\n", 1), 1, "nil", "nil"},
		{"stray_hash_start", "# " + good, 1, "nil", "nil"},
		{"stray_dollar_mid", strings.Replace(good, "salience 7", "salience $ 7", 1), 1, "nil", "nil"},
		{"stray_backtick_last", good + " `", 1, "nil", "nil"},
		// lexable leftovers behind the last rule end the parse (the grammar's start rule does not ask for EOF):
		// whatever follows them is never lexed, by any entry point
		{"leftover_then_dollar", good + " leftover $", -1, fullW, incrW},
		{"leftover_number_then_tilde", good + " 12 ~ x", -1, fullW, incrW},
		{"leftover_brace_then_unclosed_string", good + " } \"open", -1, fullW, incrW},
		{"salience_not_int", strings.Replace(good, "salience 7", "salience 99999999999999999999", 1), 1, "nil", "nil"},
		{"unclosed_string", strings.Replace(good, "\"nb\"", "\"nb", 1), -1, "nil", "nil"},
	}
	// listener-level errors in front of, inside and behind a rule that uses every statement kind:
	// whatever the listener does after its first error must not bring the front end down
	richBody := func(first string, withRange bool) string {
		t := " ver(\"k\", 2)\n" + first + " x = 1\n if x > 0 {\n  y = 2\n } else if x < 0 {\n  y = 3\n } else if x == 7 {\n  y = 5\n } else {\n  y = 4\n }\n" +
			" for i = 0; i < 2; i += 1 {\n  if i == 1 {\n   continue\n  } else if i == 5 {\n   break\n  }\n }\n"
		if withRange {
			t += " forRange q := arr {\n  w = q\n  S.F = M[\"k\"]\n  o.Do(x, 1.5, \"s\", true)\n }\n"
		}
		return t + " conc {\n  a = 1\n  ver(\"k\", 2)\n }\n z = !(x > 3) && true\n return x + y * 2\n"
	}
	rich := func(first string, withRange bool) string {
		return "rule \"k\" \"dk\" salience 2\nbegin\n" + richBody(first, withRange) + "end\n"
	}
	cases = append(cases, tc{"rich_valid", rich("", false), 0, "map[string]int64{\"k\": 2}", "map[string]int64{\"a\": 1, \"b\": 1, \"k\": 2}"})
	stmtErrs := []struct{ id, stmt string }{
		{"intoverflow", " big = 99999999999999999999\n"},
		{"emptymapkey", " M[\"\"] = 1\n"},
		{"realoverflow", " r = " + strings.Repeat("9", 400) + ".5\n"},
	}
	for _, e := range stmtErrs {
		cases = append(cases,
			tc{"lerr_" + e.id + "_inside", rich(e.stmt, true), 1, "nil", "nil"},
			tc{"lerr_" + e.id + "_before", "rule \"p\" begin\n" + e.stmt + "end\n" + rich("", true), 1, "nil", "nil"},
			tc{"lerr_" + e.id + "_after", rich("", true) + "rule \"p\" begin\n" + e.stmt + "end\n", 1, "nil", "nil"})
	}
	ruleErrs := []struct{ id, rules string }{
		{"emptyname", "rule \"\" begin\n ver(\"e\", 2)\nend\n"},
		{"dupname", "rule \"d\" begin\n ver(\"d\", 2)\nend\nrule \"d\" begin\n ver(\"d\", 3)\nend\n"},
		{"salience", "rule \"p\" salience 99999999999999999999 begin\n ver(\"p\", 2)\nend\n"},
	}
	for _, e := range ruleErrs {
		cases = append(cases,
			tc{"lerr_" + e.id + "_before", e.rules + rich("", true), 1, "nil", "nil"},
			tc{"lerr_" + e.id + "_after", rich("", true) + e.rules, 1, "nil", "nil"})
	}
	// characters Go's unicode tables call space but the rule lexer does not skip, at both ends
	for k, ch := range []string{"\u3000", "\u00a0", "\v", "\f", "\u0085", "\u2028", "\ufeff"} {
		cases = append(cases,
			tc{fmt.Sprintf("uspace_lead_%d", k), ch + good, -1, "nil", "nil"},
			tc{fmt.Sprintf("uspace_trail_%d", k), good + ch, -1, "nil", "nil"})
	}
	// token-level mutations of the good text
	toks := strings.Fields(strings.NewReplacer("(", " ( ", ")", " ) ", ",", " , ").Replace(good))
	join := func(ts []string) string { return strings.Join(ts, " ") }
	step := 1
	if tier != "thorough" {
		step = 2
	}
	for k := 0; k < len(toks); k += step {
		del := append(append([]string{}, toks[:k]...), toks[k+1:]...)
		cases = append(cases, tc{fmt.Sprintf("del_%02d", k), join(del), -1, "nil", "nil"})
		dup := append(append(append([]string{}, toks[:k+1]...), toks[k]), toks[k+1:]...)
		cases = append(cases, tc{fmt.Sprintf("dup_%02d", k), join(dup), -1, "nil", "nil"})
	}
	if tier == "thorough" {
		// seeded byte-level mutations: the front end must return normally on each (a native panic
		// surfaces as a crash) and the entry points must agree
		r := rand.New(rand.NewSource(seed*31 + 5))
		alphabet := "\"\\{}()[];=+-*/<>!&|.,@#$`~ \n\t0aZ_\x00\x7f\xc3\xa9"
		for k := 0; k < 240; k++ {
			bs := []byte(good)
			for m := 0; m <= k%3; m++ {
				pos := r.Intn(len(bs) + 1)
				ch := alphabet[r.Intn(len(alphabet))]
				switch r.Intn(3) {
				case 0:
					if pos < len(bs) {
						bs = append(bs[:pos], bs[pos+1:]...)
					}
				case 1:
					bs = append(bs[:pos], append([]byte{ch}, bs[pos:]...)...)
				default:
					if pos < len(bs) {
						bs[pos] = ch
					}
				}
			}
			cases = append(cases, tc{fmt.Sprintf("byte_%03d", k), string(bs), -1, "nil", "nil"})
		}
	}
	for _, c := range cases {
		name := "M2_" + c.id
		var verdict string
		switch c.wantReject {
		case 1:
			verdict = "\tvnd.Assert(rejected, \"this text is rejected\")\n"
		case 0:
			verdict = "\tvnd.Assert(!rejected, \"this text is accepted\")\n"
		}
		fmt.Fprintf(&b, "\n// concrete text %s\nfunc %s() {\n\trejected := zzFiveWays(%q, %s, %s)\n\t_ = rejected\n\tvnd.Reach(\"executed\")\n%s}\n", c.id, name, c.text, c.full, c.incr, verdict)
		fam.Instances = append(fam.Instances, Instance{Func: name, Stratum: "text:" + strings.SplitN(c.id, "_", 2)[0], Desc: "text " + c.id, Text: c.text, Expect: []string{"executed"}})
	}
	// base sets of one rule: an incremental text that changes the only rule's salience
	b.WriteString(`
func M3_single_rule_incremental() {
	q := vnd.Int64("q")
	text := zzRule("a", 2, vnd.SalText(q))
	// builder with exactly one rule
	dc := context.NewDataContext()
	for k, v := range zzApis() {
		dc.Add(k, v)
	}
	rb := builder.NewRuleBuilder(dc)
	zzMust(rb.BuildRuleFromString(zzRule("a", 1, "9")), "one-rule build")
	e1 := rb.BuildRuleWithIncremental(text)
	vnd.Assert(e1 == nil, "this text is accepted")
	zzWantVersions(zzVersions(rb), map[string]int64{"a": 2}, "incremental build over a one-rule set")
	// two rules, one removed, then the survivor changes salience
	rb2 := zzBuilder()
	zzMust(rb2.RemoveRules([]string{"b"}), "removal")
	e2 := rb2.BuildRuleWithIncremental(text)
	vnd.Assert(e2 == nil, "this text is accepted")
	zzWantVersions(zzVersions(rb2), map[string]int64{"a": 2}, "incremental build over a set reduced to one rule")
	// the pool's own merge
	gp, e := NewGenginePool(1, 2, SortModel, zzRule("a", 1, "9"), zzApis())
	zzMust(e, "pool construction")
	e3 := gp.UpdatePooledRulesIncremental(text)
	vnd.Assert(e3 == nil, "pool incremental update accepts exactly what the builder accepts")
	zzWantVersions(zzInstanceVersions(gp, 0), map[string]int64{"a": 2}, "pool incremental update")
	zzWantVersions(zzInstanceVersions(gp, 1), map[string]int64{"a": 2}, "pool incremental update (additional instance)")
	vnd.Reach("executed")
}
`)
	fam.Instances = append(fam.Instances, Instance{Func: "M3_single_rule_incremental", Stratum: "single-rule", Desc: "incremental text changing the salience of the only installed rule", Expect: []string{"executed"}})
	// an accepted incremental text installs the set in priority order on every entry point that merges
	b.WriteString(c16LibRunOn)
	b.WriteString(`
func M4_incremental_order() {
	sals := map[string]int64{"a": 50, "b": 40, "c": 30, "d": 20, "e": 10}
	text := ""
	for _, n := range []string{"a", "b", "c", "d", "e"} {
		text += zzRule(n, 1, strconv.Itoa(int(sals[n])))
	}
	q := vnd.Int64("q")
	add := zzRule("x", 2, vnd.SalText(q))
	sals["x"] = q
	// builder
	dc := context.NewDataContext()
	for k, v := range zzApis() {
		dc.Add(k, v)
	}
	rb := builder.NewRuleBuilder(dc)
	zzMust(rb.BuildRuleFromString(text), "build")
	zzMust(rb.BuildRuleWithIncremental(add), "incremental build")
	zzVersions(rb)
	vnd.Assert(len(zzRunOrder) == 6, "the merged set runs every rule once")
	for k := 0; k+1 < len(zzRunOrder); k++ {
		vnd.Assert(sals[zzRunOrder[k]] >= sals[zzRunOrder[k+1]], "the merged set runs in priority order (builder)")
	}
	// pool
	gp, e := NewGenginePool(1, 2, SortModel, text, zzApis())
	zzMust(e, "pool construction")
	zzMust(gp.UpdatePooledRulesIncremental(add), "pool incremental update")
	for which := 0; which < 2; which++ {
		zzVerMu.Lock()
		zzRunOrder = nil
		zzVerMu.Unlock()
		zzRunOn(gp, which)
		vnd.Assert(len(zzRunOrder) == 6, "the merged set runs every rule once")
		for k := 0; k+1 < len(zzRunOrder); k++ {
			vnd.Assert(sals[zzRunOrder[k]] >= sals[zzRunOrder[k+1]], "the merged set runs in priority order (pool)")
		}
	}
	vnd.Reach("executed")
}
`)
	b.WriteString(`
// an accepted incremental text after a removal: the re-defined rule replaces itself, nothing else moves or vanishes
func M5_incremental_after_removal() {
	for _, gone := range []string{"a", "b", "c"} {
		for _, redef := range []string{"b", "d", "e"} {
			if gone == redef {
				continue
			}
			sals := map[string]int64{"a": 50, "b": 40, "c": 30, "d": 20, "e": 10}
			text := ""
			for _, n := range []string{"a", "b", "c", "d", "e"} {
				text += zzRule(n, 1, strconv.Itoa(int(sals[n])))
			}
			dc := context.NewDataContext()
			for k, v := range zzApis() {
				dc.Add(k, v)
			}
			rb := builder.NewRuleBuilder(dc)
			zzMust(rb.BuildRuleFromString(text), "build")
			zzMust(rb.RemoveRules([]string{gone}), "removal")
			zzMust(rb.BuildRuleWithIncremental(zzRule(redef, 2, strconv.Itoa(int(sals[redef])))), "incremental build")
			delete(sals, gone)
			vers := zzVersions(rb)
			vnd.Assert(len(zzRunOrder) == 4, "the merged set runs every rule once")
			seen := map[string]bool{}
			for k := 0; k < len(zzRunOrder); k++ {
				_, in := sals[zzRunOrder[k]]
				vnd.Assert(in && !seen[zzRunOrder[k]], "exactly the rules of the merged set run, each once")
				seen[zzRunOrder[k]] = true
				if k+1 < len(zzRunOrder) {
					vnd.Assert(sals[zzRunOrder[k]] >= sals[zzRunOrder[k+1]], "the merged set runs in priority order (builder)")
				}
			}
			vnd.Assert(vers[redef] == 2, "the re-defined rule runs in its new version")
		}
	}
	vnd.Reach("executed")
}
`)
	fam.Instances = append(fam.Instances, Instance{Func: "M5_incremental_after_removal", Stratum: "merge-order", Desc: "removal, then an accepted incremental text re-defining a rule ranked before or after the removed one", Expect: []string{"executed"}})
	fam.Instances = append(fam.Instances, Instance{Func: "M4_incremental_order", Stratum: "merge-order", Desc: "a rule with a symbolic salience merged into five installed rules, builder and pool", Expect: []string{"executed"}})
	finishPoolFamily(fam, "C10", b.String())
	return fam, nil
}
