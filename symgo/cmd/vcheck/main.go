// Command vcheck decides the gengine properties by symbolic execution of the
// real code (go/ssa of /repo, regenerated on every run) with an SMT solver.
package main

import (
	"encoding/json"
	"flag"
	"fmt"
	"os"
	"path/filepath"
	"regexp"
	"runtime"
	"sort"
	"strings"
	"sync"
	"time"

	"golang.org/x/tools/go/ssa"

	"symgo/interp"
	"symgo/smt"
)

// Instance is one generated harness function.
type Instance struct {
	Func    string   `json:"func"`
	Stratum string   `json:"stratum"`
	Desc    string   `json:"desc"`
	Text    string   `json:"text,omitempty"`
	Expect  []string `json:"-"` // reach labels that must be hit on some path
	Nondet  bool     `json:"-"` // native behaviour is schedule dependent: skip trace validation
	MapOrd  bool     `json:"-"` // the harness explores map iteration orders: native replays are repeated
	OneOrd  bool     `json:"-"` // thorough: not extracted a second time under the newest-first thread order (too many unordered access pairs)
}

// Family is everything one property check runs.
type Family struct {
	Prop        string
	PkgPath     string            // import path of the harness package
	Files       map[string]string // virtual file path (under /repo) -> source
	TestFile    string            // virtual path of the replay test file
	TestSrc     string
	Instances   []Instance
	Cfg         interp.Config
	Bounds      map[string]interface{}
	Assumptions []string
	Outside     []string
	Functions   []string // gengine functions the property is about (must be hit)
	BothOrders  bool     // thorough: extract every event structure also under the newest-first thread order
}

type generator func(tier string, seed int64) (*Family, error)

var generators = map[string]generator{}

var (
	flagProp    = flag.String("prop", "", "property id (C01..C20)")
	flagTier    = flag.String("tier", "", "quick or thorough (default $VERIF_TIER or quick)")
	flagWorkers = flag.Int("workers", 0, "parallel workers (default: cores)")
	flagOnly    = flag.String("only", "", "regexp filter on instance function names")
	flagV       = flag.Bool("v", false, "verbose")
	flagKeep    = flag.Bool("keep", false, "keep scratch directory")
	flagNoRepl  = flag.Bool("noreplay", false, "do not replay counterexamples (debug only; exits 2 if any)")
	flagNoGroup = flag.Bool("nogroup", false, "report every violating instance separately (debug)")
	flagDump    = flag.String("dump", "", "write generated harness files to this directory and exit")
)

func main() {
	flag.Parse()
	tier := *flagTier
	if tier == "" {
		tier = os.Getenv("VERIF_TIER")
	}
	if tier != "thorough" {
		tier = "quick"
	}
	seed := int64(1)
	if s := os.Getenv("VERIF_SEED"); s != "" {
		fmt.Sscan(s, &seed)
	}
	gen, ok := generators[*flagProp]
	if !ok {
		fmt.Fprintf(os.Stderr, "unknown property %q\n", *flagProp)
		os.Exit(2)
	}
	os.Exit(runCheck(*flagProp, tier, seed, gen))
}

type instResult struct {
	inst Instance
	rep  *interp.Report
}

func runCheck(prop, tier string, seed int64, gen generator) int {
	t0 := time.Now()
	scratch, err := os.MkdirTemp("", "vcheck-"+prop+"-")
	if err != nil {
		fmt.Println("INCONCLUSIVE: cannot create scratch dir:", err)
		return 2
	}
	if !*flagKeep {
		defer os.RemoveAll(scratch)
	}
	fam, err := gen(tier, seed)
	if err != nil {
		fmt.Println("INCONCLUSIVE: generator:", err)
		return 2
	}
	addSupportFiles(fam)
	for k := range fam.Instances {
		head := "\nfunc " + fam.Instances[k].Func + "() {"
		for _, src := range fam.Files {
			if a := strings.Index(src, head); a >= 0 {
				body := src[a+len(head):]
				if e := strings.Index(body, "\nfunc "); e >= 0 {
					body = body[:e]
				}
				if strings.Contains(body, "ExploreMapOrder") {
					fam.Instances[k].MapOrd = true
				}
			}
		}
	}
	if *flagDump != "" {
		for p, src := range fam.Files {
			dst := filepath.Join(*flagDump, strings.TrimPrefix(p, repoDir))
			os.MkdirAll(filepath.Dir(dst), 0o755)
			os.WriteFile(dst, []byte(src), 0o644)
		}
		return 0
	}
	if *flagOnly != "" {
		re := regexp.MustCompile(*flagOnly)
		var keep []Instance
		for _, in := range fam.Instances {
			if re.MatchString(in.Func) {
				keep = append(keep, in)
			}
		}
		fam.Instances = keep
	}
	bridge, err := buildBridge(scratch)
	if err != nil {
		fmt.Println("INCONCLUSIVE:", err)
		return 2
	}
	defer bridge.Close()

	overlay := map[string][]byte{}
	for p, src := range fam.Files {
		overlay[p] = []byte(src)
	}
	tl := time.Now()
	prog, _, err := loadProgram(overlay, fam.PkgPath)
	if err != nil {
		fmt.Println("INCONCLUSIVE: cannot load /repo with the harness overlay (does /repo compile?):", err)
		return 2
	}
	loadS := time.Since(tl).Seconds()
	var hpkg *ssa.Package
	for _, p := range prog.AllPackages() {
		if p.Pkg.Path() == fam.PkgPath {
			hpkg = p
		}
	}
	if hpkg == nil {
		fmt.Println("INCONCLUSIVE: harness package not found after load")
		return 2
	}

	cfg := fam.Cfg
	cfg.Bridge = bridge
	if cfg.InitPkgs == nil {
		cfg.InitPkgs = []string{modPath, "github.com/golang-collections/"}
	}
	if tier == "thorough" {
		smt.Global = smt.NewSampler(600)
	} else {
		smt.Global = smt.NewSampler(100)
	}
	if os.Getenv("VCHECK_NEWEST") != "" {
		cfg.NewestFirst = true // debug: first extraction under the newest-first thread order
	}
	ex := &interp.Explorer{Prog: prog, Cfg: cfg}
	workers := *flagWorkers
	if workers <= 0 {
		workers = runtime.NumCPU()
	}
	if workers > len(fam.Instances) {
		workers = len(fam.Instances)
	}
	if workers < 1 {
		workers = 1
	}
	jobs := make(chan Instance)
	var mu sync.Mutex
	var results []instResult
	var wg sync.WaitGroup
	var infra []string
	for w := 0; w < workers; w++ {
		wg.Add(1)
		go func() {
			defer wg.Done()
			wk, err := ex.NewWorker()
			if err != nil {
				mu.Lock()
				infra = append(infra, "cannot start solver: "+err.Error())
				mu.Unlock()
				for range jobs {
				}
				return
			}
			defer wk.Close()
			for in := range jobs {
				fn := hpkg.Func(in.Func)
				if fn == nil {
					mu.Lock()
					infra = append(infra, "harness function missing: "+in.Func)
					mu.Unlock()
					continue
				}
				rep := wk.Explore(fn)
				mu.Lock()
				results = append(results, instResult{in, rep})
				if *flagV {
					fmt.Fprintf(os.Stderr, "%-28s paths=%-5d ends=%v viol=%d %.2fs\n", in.Func, len(rep.Paths), rep.Ends, len(rep.Violations), rep.Wall)
				}
				mu.Unlock()
			}
		}()
	}
	for _, in := range fam.Instances {
		jobs <- in
	}
	close(jobs)
	wg.Wait()
	if tier == "thorough" && fam.BothOrders && len(infra) == 0 {
		// second extraction under the other deterministic thread order
		cfg2 := cfg
		cfg2.NewestFirst = true
		ex2 := &interp.Explorer{Prog: prog, Cfg: cfg2}
		jobs2 := make(chan Instance)
		var wg2 sync.WaitGroup
		for w := 0; w < workers; w++ {
			wg2.Add(1)
			go func() {
				defer wg2.Done()
				wk, err := ex2.NewWorker()
				if err != nil {
					for range jobs2 {
					}
					return
				}
				defer wk.Close()
				for in := range jobs2 {
					fn := hpkg.Func(in.Func)
					if fn == nil {
						continue
					}
					rep := wk.Explore(fn)
					in2 := in
					in2.Desc += " (newest-first thread order)"
					in2.Nondet = true
					mu.Lock()
					results = append(results, instResult{in2, rep})
					mu.Unlock()
				}
			}()
		}
		for _, in := range fam.Instances {
			if !in.OneOrd {
				jobs2 <- in
			}
		}
		close(jobs2)
		wg2.Wait()
	}
	sort.Slice(results, func(a, b int) bool { return results[a].inst.Func < results[b].inst.Func })

	return conclude(prop, tier, seed, fam, results, infra, scratch, bridge, loadS, t0)
}

// addSupportFiles overlays the vnd package.
func addSupportFiles(fam *Family) {
	for _, f := range []string{"vnd.go", "yield.go"} {
		b, err := os.ReadFile("/verif/overlay/vnd/" + f)
		if err == nil {
			fam.Files[repoDir+"/zz_verif/vnd/"+f] = string(b)
		}
	}
}

func writeJSON(path string, v interface{}) error {
	b, err := json.MarshalIndent(v, "", " ")
	if err != nil {
		return err
	}
	os.MkdirAll(filepath.Dir(path), 0o755)
	return os.WriteFile(path, append(b, '\n'), 0o644)
}
