package main

import (
	"fmt"
	"strings"

	"symgo/interp"
)

func init() { generators["C03"] = genC03 }

const c03Lib = `
type In struct {
	A int64
	B string
}

func (in *In) Get(a int16) int64 { lastI = int64(a); return in.A }
func (in In) VGet(a int64) int64 { lastI = a; return in.A + 1 }

type D struct {
	I    int
	I8   int8
	I16  int16
	I32  int32
	I64  int64
	U    uint
	U8   uint8
	U16  uint16
	U32  uint32
	U64  uint64
	F32  float32
	F64  float64
	S    string
	B    bool
	In   In
	P    *In
	MS   map[string]int64
	MI   map[int]int64
	M8   map[string]int8
	MU   map[string]uint64
	MF   map[string]float64
	SL   []int64
	SL8  []int8
	SLF  []float64
	AR   [3]int64
	PAR  *[3]int64
}

func (d *D) PM(a int32) int64  { lastI = int64(a); return d.I64 }
func (d D) VM(a uint8) string  { lastI = int64(a); return d.S }
func (d *D) Two() (int64, string) { return 11, "second" }

var lastI int64

type ptrs struct {
	pi *int64
	p8 *int8
	pu *uint16
	pf *float64
	pf32 *float32
	ps *string
	pb *bool
}

// newD builds the injected object with symbolic contents and a deep snapshot.
func newD() (*D, *D, *ptrs, *ptrs) {
	mk := func() (*D, *ptrs) { return &D{}, &ptrs{} }
	d, p := mk()
	d.I, d.I8, d.I16, d.I32, d.I64 = vnd.Int("dI"), vnd.Int8("dI8"), vnd.Int16("dI16"), vnd.Int32("dI32"), vnd.Int64("dI64")
	d.U, d.U8, d.U16, d.U32, d.U64 = vnd.Uint("dU"), vnd.Uint8("dU8"), vnd.Uint16("dU16"), vnd.Uint32("dU32"), vnd.Uint64("dU64")
	d.F32, d.F64, d.S, d.B = vnd.Float32("dF32"), vnd.Float64("dF64"), vnd.String("dS"), vnd.Bool("dB")
	vnd.Assume(vnd.And(d.F32 == d.F32, d.F64 == d.F64)) // no NaN: equality is used for the frame condition
	d.In = In{A: vnd.Int64("dInA"), B: "inb"}
	d.P = &In{A: vnd.Int64("dPA"), B: "pb"}
	d.MS = map[string]int64{"k": vnd.Int64("msk"), "o": vnd.Int64("mso")}
	d.MI = map[int]int64{3: vnd.Int64("mi3"), 4: vnd.Int64("mi4")}
	d.M8 = map[string]int8{"k": vnd.Int8("m8k")}
	d.MU = map[string]uint64{"k": vnd.Uint64("muk")}
	d.MF = map[string]float64{"k": 1.5}
	d.SL = []int64{vnd.Int64("sl0"), vnd.Int64("sl1"), vnd.Int64("sl2")}
	d.SL8 = []int8{vnd.Int8("s80"), vnd.Int8("s81")}
	d.SLF = []float64{0.5, 2.5}
	d.AR = [3]int64{vnd.Int64("ar0"), vnd.Int64("ar1"), vnd.Int64("ar2")}
	d.PAR = &[3]int64{vnd.Int64("pa0"), vnd.Int64("pa1"), vnd.Int64("pa2")}
	pi, p8, pu, pf, pf32, ps, pb := vnd.Int64("pi"), vnd.Int8("p8"), vnd.Uint16("pu"), float64(2.25), float32(0.75), vnd.String("ps"), vnd.Bool("pb")
	p.pi, p.p8, p.pu, p.pf, p.pf32, p.ps, p.pb = &pi, &p8, &pu, &pf, &pf32, &ps, &pb
	// snapshot
	s := &D{}
	*s = *d
	in := *d.P
	s.P = &in
	s.MS, s.MI, s.M8, s.MU, s.MF = map[string]int64{}, map[int]int64{}, map[string]int8{}, map[string]uint64{}, map[string]float64{}
	for k, v := range d.MS {
		s.MS[k] = v
	}
	for k, v := range d.MI {
		s.MI[k] = v
	}
	for k, v := range d.M8 {
		s.M8[k] = v
	}
	for k, v := range d.MU {
		s.MU[k] = v
	}
	for k, v := range d.MF {
		s.MF[k] = v
	}
	s.SL = append([]int64{}, d.SL...)
	s.SL8 = append([]int8{}, d.SL8...)
	s.SLF = append([]float64{}, d.SLF...)
	par := *d.PAR
	s.PAR = &par
	q := &ptrs{}
	qi, q8, qu, qf, qf32, qs, qb := pi, p8, pu, pf, pf32, ps, pb
	q.pi, q.p8, q.pu, q.pf, q.pf32, q.ps, q.pb = &qi, &q8, &qu, &qf, &qf32, &qs, &qb
	return d, s, p, q
}

// untouched asserts the frame condition for every location except skip.
func untouched(d, s *D, p, q *ptrs, skip string) {
	chk := func(name string, same bool) {
		if name != skip {
			vnd.Assert(same, "untouched: "+name)
		}
	}
	chk("I", d.I == s.I)
	chk("I8", d.I8 == s.I8)
	chk("I16", d.I16 == s.I16)
	chk("I32", d.I32 == s.I32)
	chk("I64", d.I64 == s.I64)
	chk("U", d.U == s.U)
	chk("U8", d.U8 == s.U8)
	chk("U16", d.U16 == s.U16)
	chk("U32", d.U32 == s.U32)
	chk("U64", d.U64 == s.U64)
	chk("F32", d.F32 == s.F32)
	chk("F64", d.F64 == s.F64)
	chk("S", d.S == s.S)
	chk("B", d.B == s.B)
	chk("In.A", d.In.A == s.In.A)
	chk("In.B", d.In.B == s.In.B)
	chk("P.A", d.P.A == s.P.A)
	chk("P.B", d.P.B == s.P.B)
	vnd.Assert(len(d.MS) == len(s.MS) || skip == "MS[new]", "untouched: len(MS)")
	chk("MS[k]", d.MS["k"] == s.MS["k"])
	chk("MS[o]", d.MS["o"] == s.MS["o"])
	vnd.Assert(len(d.MI) == len(s.MI) || skip == "MI[new]", "untouched: len(MI)")
	chk("MI[3]", d.MI[3] == s.MI[3])
	chk("MI[4]", d.MI[4] == s.MI[4])
	chk("M8[k]", d.M8["k"] == s.M8["k"])
	chk("MU[k]", d.MU["k"] == s.MU["k"])
	chk("MF[k]", d.MF["k"] == s.MF["k"])
	chk("SL[0]", d.SL[0] == s.SL[0])
	chk("SL[1]", d.SL[1] == s.SL[1])
	chk("SL[2]", d.SL[2] == s.SL[2])
	vnd.Assert(len(d.SL) == 3, "untouched: len(SL)")
	chk("SL8[0]", d.SL8[0] == s.SL8[0])
	chk("SL8[1]", d.SL8[1] == s.SL8[1])
	chk("SLF[0]", d.SLF[0] == s.SLF[0])
	chk("SLF[1]", d.SLF[1] == s.SLF[1])
	chk("AR[0]", d.AR[0] == s.AR[0])
	chk("AR[1]", d.AR[1] == s.AR[1])
	chk("AR[2]", d.AR[2] == s.AR[2])
	chk("PAR[0]", d.PAR[0] == s.PAR[0])
	chk("PAR[1]", d.PAR[1] == s.PAR[1])
	chk("PAR[2]", d.PAR[2] == s.PAR[2])
	chk("pi", *p.pi == *q.pi)
	chk("p8", *p.p8 == *q.p8)
	chk("pu", *p.pu == *q.pu)
	chk("pf", *p.pf == *q.pf)
	chk("pf32", *p.pf32 == *q.pf32)
	chk("ps", *p.ps == *q.ps)
	chk("pb", *p.pb == *q.pb)
}

func inject(d *D, p *ptrs) *context.DataContext {
	dc := context.NewDataContext()
	dc.Add("d", d)
	dc.Add("pi", p.pi)
	dc.Add("p8", p.p8)
	dc.Add("pu", p.pu)
	dc.Add("pf", p.pf)
	dc.Add("pf32", p.pf32)
	dc.Add("ps", p.ps)
	dc.Add("pb", p.pb)
	dc.Add("ms", d.MS)
	dc.Add("pms", &d.MS)
	dc.Add("sl", d.SL)
	dc.Add("psl", &d.SL)
	dc.Add("par", d.PAR)
	dc.Add("key", "k")
	dc.Add("nokey", "zz")
	dc.Add("nik", int64(77))
	dc.Add("ione", int64(1))
	mis := map[int]string{1: "one"}
	dc.Add("mis", mis)
	dc.Add("pmis", &mis)
	dc.Add("psm", &map[string]bool{"k": true})
	dc.Add("ik", int64(3))
	dc.Add("ix", int64(1))
	return dc
}

func exec(dc *context.DataContext, body string) (error, map[string]interface{}) {
	rb := builder.NewRuleBuilder(dc)
	if e := rb.BuildRuleFromString("rule \"r\" begin\n" + body + "\nend"); e != nil {
		vnd.Assert(false, "build must succeed")
	}
	eng := engine.NewGengine()
	err := eng.Execute(rb, true)
	res, _ := eng.GetRulesResultMap()
	return err, res
}
`

type c03Target struct {
	rule  string // lvalue in rule text
	goLv  string // Go expression of the host location
	key   string // name in untouched()
	typ   string // Go type of the location
	cross bool   // struct field / pointer scalar: cross-class sources allowed
}

type c03Source struct {
	id, decl, rule, goExpr string
	class                  byte
	narrow                 string // Go type of a narrow source
}

func typeRange(t string) (lo, hi string, float bool) {
	switch t {
	case "int8":
		return "-128", "127", false
	case "int16":
		return "-32768", "32767", false
	case "int32":
		return "-2147483648", "2147483647", false
	case "int", "int64":
		return "-9223372036854775808", "9223372036854775807", false
	case "uint8":
		return "0", "255", false
	case "uint16":
		return "0", "65535", false
	case "uint32":
		return "0", "4294967295", false
	case "uint", "uint64":
		return "0", "18446744073709551615", false
	case "float32":
		return "-16777216", "16777216", true
	case "float64":
		return "-9007199254740992", "9007199254740992", true
	}
	return "", "", false
}

func classOfType(t string) byte {
	switch {
	case strings.HasPrefix(t, "int"):
		return 'I'
	case strings.HasPrefix(t, "uint"):
		return 'U'
	case strings.HasPrefix(t, "float"):
		return 'F'
	case t == "string":
		return 'S'
	}
	return 'B'
}

// representable renders the assumption that source (class, Go expr e) fits typ.
func representable(src c03Source, typ string) string {
	lo, hi, _ := typeRange(typ)
	e := src.goExpr
	if src.id == "ubig" || src.id == "xbig" {
		return "true"
	}
	switch src.class {
	case 'I':
		e = "int64(" + e + ")"
	case 'U':
		e = "uint64(" + e + ")"
	}
	switch src.class {
	case 'I':
		if strings.HasPrefix(typ, "uint") {
			if typ == "uint" || typ == "uint64" {
				return e + " >= 0"
			}
			return "vnd.And(" + e + " >= 0, " + e + " <= " + hi + ")"
		}
		if typ == "int" || typ == "int64" {
			return "true"
		}
		return "vnd.And(" + e + " >= " + lo + ", " + e + " <= " + hi + ")"
	case 'U':
		if typ == "uint" || typ == "uint64" {
			return "true"
		}
		if typ == "int" || typ == "int64" {
			return e + " <= 9223372036854775807"
		}
		return e + " <= " + hi
	case 'F': // float64(k), k int32 (float32(kk), kk int8 for the narrow source)
		if src.narrow != "" {
			if strings.HasPrefix(typ, "uint") {
				return "kk >= 0"
			}
			return "true"
		}
		klo, khi := lo, hi
		switch typ {
		case "int", "int64", "float64":
			return "true"
		case "uint", "uint64", "uint32":
			return "k >= 0"
		case "float32":
			klo, khi = "-16777216", "16777216"
		case "int32":
			return "true"
		}
		return "vnd.And(k >= " + klo + ", k <= " + khi + ")"
	}
	return "true"
}

func genC03(tier string, seed int64) (*Family, error) {
	pkg := "c03"
	fam := &Family{
		Prop: "C03", PkgPath: modPath + "/zz_verif/" + pkg, Files: map[string]string{},
		Bounds: map[string]interface{}{"containers": "maps with <= 2 keys, slices/arrays of length <= 3, concrete keys and indexes (literal and variable)", "access_paths": "one and two levels", "one operation per rule": true},
		Cfg:    interp.Config{MaxSteps: 3_000_000},
		Functions: []string{"DataContext).GetValue", "DataContext).SetValue", "DataContext).SetMapVarValue", "DataContext).ExecFunc", "DataContext).ExecMethod", "DataContext).ExecThreeLevel",
			"core.SetAttributeValue", "core.SetSingleValue", "core.GetStructAttributeValue", "core.ParamsTypeChange", "core.GetWantedValue", "core.InvokeFunction", "base.MapVar).Evaluate", "base.Args).Evaluate"},
	}
	fam.Assumptions = []string{
		"gengine reaches injected data only through package reflect, which is modelled (rmodel.go) over the interpreter's heap; the model reproduces reflect's panics",
		"assigned values are assumed representable in the target (the property excludes the others); NaN is excluded from the initial float contents because the frame condition uses ==",
		"containers take same-class sources only (the statement promises cross-class conversion for struct fields and pointer-injected scalars only)",
		"every initial field, element and entry value is symbolic; the frame condition compares all 50 tracked locations with a deep snapshot",
	}
	fam.Outside = []string{"non-representable values", "arrays injected by value (a copy the host cannot observe)", "containers larger than the bound"}

	targets := []c03Target{}
	for _, t := range []string{"I:int", "I8:int8", "I16:int16", "I32:int32", "I64:int64", "U:uint", "U8:uint8", "U16:uint16", "U32:uint32", "U64:uint64", "F32:float32", "F64:float64"} {
		p := strings.Split(t, ":")
		targets = append(targets, c03Target{"d." + p[0], "d." + p[0], p[0], p[1], true})
	}
	targets = append(targets,
		c03Target{"d.In.A", "d.In.A", "In.A", "int64", true},
		c03Target{"d.P.A", "d.P.A", "P.A", "int64", true},
		c03Target{"pi", "*p.pi", "pi", "int64", true},
		c03Target{"p8", "*p.p8", "p8", "int8", true},
		c03Target{"pu", "*p.pu", "pu", "uint16", true},
		c03Target{"pf", "*p.pf", "pf", "float64", true},
		c03Target{"pf32", "*p.pf32", "pf32", "float32", true},
		c03Target{"d.MS[\"k\"]", "d.MS[\"k\"]", "MS[k]", "int64", false},
		c03Target{"d.MS[key]", "d.MS[\"k\"]", "MS[k]", "int64", false},
		c03Target{"d.MS[\"new\"]", "d.MS[\"new\"]", "MS[new]", "int64", false},
		c03Target{"ms[\"o\"]", "d.MS[\"o\"]", "MS[o]", "int64", false},
		c03Target{"pms[\"k\"]", "d.MS[\"k\"]", "MS[k]", "int64", false},
		c03Target{"d.MI[3]", "d.MI[3]", "MI[3]", "int64", false},
		c03Target{"d.MI[ik]", "d.MI[3]", "MI[3]", "int64", false},
		c03Target{"d.MI[9]", "d.MI[9]", "MI[new]", "int64", false},
		c03Target{"d.M8[\"k\"]", "d.M8[\"k\"]", "M8[k]", "int8", false},
		c03Target{"d.MU[\"k\"]", "d.MU[\"k\"]", "MU[k]", "uint64", false},
		c03Target{"d.MF[\"k\"]", "d.MF[\"k\"]", "MF[k]", "float64", false},
		c03Target{"d.SL[1]", "d.SL[1]", "SL[1]", "int64", false},
		c03Target{"d.SL[ix]", "d.SL[1]", "SL[1]", "int64", false},
		c03Target{"sl[0]", "d.SL[0]", "SL[0]", "int64", false},
		c03Target{"psl[2]", "d.SL[2]", "SL[2]", "int64", false},
		c03Target{"d.SL8[0]", "d.SL8[0]", "SL8[0]", "int8", false},
		c03Target{"d.SLF[1]", "d.SLF[1]", "SLF[1]", "float64", false},
		c03Target{"par[2]", "d.PAR[2]", "PAR[2]", "int64", false},
		c03Target{"d.PAR[0]", "d.PAR[0]", "PAR[0]", "int64", false},
	)
	sources := []c03Source{
		{"x", "\tx := vnd.Int64(\"x\")\n\tdc.Add(\"x\", x)\n", "x", "x", 'I', ""},
		{"u", "\tu := vnd.Uint64(\"u\")\n\tdc.Add(\"u\", u)\n", "u", "u", 'U', ""},
		{"fk", "\tk := vnd.Int32(\"k\")\n\tfk := float64(k)\n\tdc.Add(\"fk\", fk)\n", "fk", "fk", 'F', ""},
		{"lit", "", "5", "int64(5)", 'I', ""},
		{"n8", "\tn8 := vnd.Int8(\"n8\")\n\tdc.Add(\"n8\", n8)\n", "n8", "n8", 'I', "int8"},
		{"nu8", "\tnu8 := vnd.Uint8(\"nu8\")\n\tdc.Add(\"nu8\", nu8)\n", "nu8", "nu8", 'U', "uint8"},
		{"nf32", "\tkk := vnd.Int8(\"kk\")\n\tnf32 := float32(kk)\n\tdc.Add(\"nf32\", nf32)\n", "nf32", "nf32", 'F', "float32"},
		// round 7 (seed C03-m13): unsigned values with the top bit set that are exactly representable as float32/float64
		{"xbig", "\tkc := vnd.Uint8(\"kc\")\n\txbig := -(int64(1) << 62) - int64(kc)<<40\n\tdc.Add(\"xbig\", xbig)\n", "xbig", "xbig", 'I', ""},
		{"ubig", "\tkb := vnd.Uint8(\"kb\")\n\tubig := uint64(1)<<63 + uint64(kb)<<40\n\tdc.Add(\"ubig\", ubig)\n", "ubig", "ubig", 'U', ""},
	}
	var b strings.Builder
	add := func(name, stratum, desc, src string) {
		b.WriteString("\n// " + desc + "\n" + src)
		fam.Instances = append(fam.Instances, Instance{Func: name, Stratum: stratum, Desc: desc, Expect: []string{"executed"}})
	}
	clean := func(s string) string {
		r := strings.NewReplacer(".", "_", "[", "_", "]", "", "\"", "", "*", "", "-", "neg", " ", "sp")
		return r.Replace(s)
	}
	for _, t := range targets {
		tc := classOfType(t.typ)
		for _, s := range sources {
			if !t.cross && s.class != tc {
				continue
			}
			if (s.id == "ubig" || s.id == "xbig") && !(t.cross && tc == 'F') {
				continue // above MaxInt64: representable only in the float targets (and uint64, covered by u)
			}
			if tier != "thorough" && s.narrow != "" && t.cross && !(t.key == "I64" || t.key == "U64" || t.key == "F64" || t.key == "pi") {
				continue // quick: narrow sources into the 64-bit fields and every container
			}
			rep := representable(s, t.typ)
			name := "W_" + clean(t.rule) + "_" + s.id
			want := t.typ + "(" + s.goExpr + ")"
			src := fmt.Sprintf(`func %s() {
	d, s, p, q := newD()
	dc := inject(d, p)
%s	vnd.Assume(%s)
	err, _ := exec(dc, %q)
	vnd.Reach("executed")
	vnd.Assert(err == nil, "the assignment succeeds")
	vnd.Assert(%s == %s, "the host observes the assigned value, converted to the target type")
	untouched(d, s, p, q, %q)
}
`, name, s.decl, rep, " "+t.rule+" = "+s.rule, t.goLv, want, t.key)
			add(name, "write:"+t.key, fmt.Sprintf("%s = %s (%s <- %s)", t.rule, s.rule, t.typ, s.id), src)
		}
	}
	// strings and booleans
	for _, w := range []struct{ rule, lv, key, decl, val string }{
		{"d.S", "d.S", "S", "\tv := vnd.String(\"v\")\n\tdc.Add(\"v\", v)\n", "v"},
		{"d.B", "d.B", "B", "\tv := vnd.Bool(\"v\")\n\tdc.Add(\"v\", v)\n", "v"},
		{"ps", "*p.ps", "ps", "\tv := vnd.String(\"v\")\n\tdc.Add(\"v\", v)\n", "v"},
		{"pb", "*p.pb", "pb", "\tv := vnd.Bool(\"v\")\n\tdc.Add(\"v\", v)\n", "v"},
		{"d.P.B", "d.P.B", "P.B", "\tv := vnd.String(\"v\")\n\tdc.Add(\"v\", v)\n", "v"},
	} {
		name := "W_" + clean(w.rule) + "_v"
		add(name, "write:"+w.key, w.rule+" = v", fmt.Sprintf(`func %s() {
	d, s, p, q := newD()
	dc := inject(d, p)
%s	err, _ := exec(dc, " %s = v")
	vnd.Reach("executed")
	vnd.Assert(err == nil, "the assignment succeeds")
	vnd.Assert(%s == v, "the host observes the assigned value")
	untouched(d, s, p, q, %q)
}
`, name, w.decl, w.rule, w.lv, w.key))
	}
	// reads
	reads := []struct{ rule, goT, goV string }{
		{"d.I8", "int8", "d.I8"}, {"d.U16", "uint16", "d.U16"}, {"d.I64", "int64", "d.I64"}, {"d.F32", "float32", "d.F32"}, {"d.S", "string", "d.S"}, {"d.B", "bool", "d.B"},
		{"d.In.A", "int64", "d.In.A"}, {"d.P.A", "int64", "d.P.A"}, {"d.P.B", "string", "d.P.B"},
		{"d.MS[\"k\"]", "int64", "d.MS[\"k\"]"}, {"d.MS[\"absent\"]", "int64", "int64(0)"}, {"d.MS[key]", "int64", "d.MS[\"k\"]"}, {"ms[\"o\"]", "int64", "d.MS[\"o\"]"}, {"pms[\"absent\"]", "int64", "int64(0)"},
		{"d.MI[4]", "int64", "d.MI[4]"}, {"d.MI[ik]", "int64", "d.MI[3]"}, {"d.MI[77]", "int64", "int64(0)"}, {"d.M8[\"k\"]", "int8", "d.M8[\"k\"]"}, {"d.M8[\"zz\"]", "int8", "int8(0)"},
		{"pms[nokey]", "int64", "int64(0)"}, {"ms[nokey]", "int64", "int64(0)"}, {"d.MS[nokey]", "int64", "int64(0)"}, {"d.MI[nik]", "int64", "int64(0)"},
		{"pmis[nik]", "string", "\"\""}, {"pmis[1]", "string", "\"one\""}, {"pmis[ione]", "string", "\"one\""}, {"mis[nik]", "string", "\"\""}, {"psm[nokey]", "bool", "false"}, {"psm[key]", "bool", "true"},
		{"d.SL[2]", "int64", "d.SL[2]"}, {"d.SL[ix]", "int64", "d.SL[1]"}, {"sl[0]", "int64", "d.SL[0]"}, {"psl[1]", "int64", "d.SL[1]"}, {"d.SL8[1]", "int8", "d.SL8[1]"},
		{"d.AR[1]", "int64", "d.AR[1]"}, {"par[0]", "int64", "d.PAR[0]"}, {"d.PAR[2]", "int64", "d.PAR[2]"},
		{"d.MS[\" k\"]", "int64", "int64(0)"}, {"d.MS[\"k \"]", "int64", "int64(0)"}, {"pms[\" k \"]", "int64", "int64(0)"},
		{"d.MI[-40]", "int64", "int64(0)"}, {"mis[-1]", "string", "\"\""}, {"pmis[-1]", "string", "\"\""},
	}
	for k, r := range reads {
		name := fmt.Sprintf("R_%02d_%s", k, clean(r.rule))
		add(name, "read", "return "+r.rule, fmt.Sprintf(`func %s() {
	d, s, p, q := newD()
	dc := inject(d, p)
	err, res := exec(dc, %q)
	vnd.Reach("executed")
	vnd.Assert(err == nil, "the read succeeds")
	got, ok := res["r"].(%s)
	vnd.Assert(ok, "the value has the Go type of the location")
	vnd.Assert(got == %s, "the current Go value is read")
	untouched(d, s, p, q, "")
}
`, name, " return "+r.rule, r.goT, r.goV))
	}
	// calls
	b.WriteString(`
type argObj struct{}

type callRec struct {
	a int8
	b uint16
	c float32
	e string
	g bool
	h int64
	n int
}
`)
	add("C_func_all_kinds", "call", "function with every parameter class, same-class narrowing", `func C_func_all_kinds() {
	d, s, p, q := newD()
	dc := inject(d, p)
	var rec callRec
	dc.Add("fn", func(a int8, b uint16, c float32, e string, g bool, h int64) int64 {
		rec = callRec{a, b, c, e, g, h, rec.n + 1}
		return 42
	})
	x, u, k, str, bb, x2 := vnd.Int64("x"), vnd.Uint64("u"), vnd.Int8("k"), vnd.String("str"), vnd.Bool("bb"), vnd.Int64("x2")
	vnd.Assume(vnd.And(vnd.And(x >= -128, x <= 127), u <= 65535))
	fk := float64(k)
	dc.Add("x", x)
	dc.Add("u", u)
	dc.Add("fk", fk)
	dc.Add("str", str)
	dc.Add("bb", bb)
	dc.Add("x2", x2)
	err, res := exec(dc, " return fn(x, u, fk, str, bb, x2)")
	vnd.Reach("executed")
	vnd.Assert(err == nil, "the call succeeds")
	vnd.Assert(rec.n == 1, "called once")
	vnd.Assert(vnd.And(vnd.And(rec.a == int8(x), rec.b == uint16(u)), vnd.And(rec.c == float32(fk), rec.h == x2)), "numeric arguments arrive converted, in position")
	vnd.Assert(vnd.And(rec.e == str, rec.g == bb), "string and bool arguments arrive unchanged")
	got, ok := res["r"].(int64)
	vnd.Assert(ok && got == 42, "the rule sees the result")
	untouched(d, s, p, q, "")
}
`)
	add("C_func_cross_class", "call", "function arguments converted across numeric classes", `func C_func_cross_class() {
	d, s, p, q := newD()
	dc := inject(d, p)
	var ga float64
	var gb int64
	var gc uint8
	var gd uint64
	dc.Add("fn", func(a float64, b int64, c uint8, e uint64) bool { ga, gb, gc, gd = a, b, c, e; return true })
	x, k, y, z := vnd.Int64("x"), vnd.Int8("k"), vnd.Int64("y"), vnd.Uint64("z")
	vnd.Assume(vnd.And(vnd.And(x >= -9007199254740992, x <= 9007199254740992), vnd.And(y >= 0, y <= 255)))
	vnd.Assume(z <= 9223372036854775807)
	fk := float64(k)
	dc.Add("x", x)
	dc.Add("fk", fk)
	dc.Add("y", y)
	dc.Add("z", z)
	err, res := exec(dc, " return fn(x, fk, y, z)")
	vnd.Reach("executed")
	vnd.Assert(err == nil, "the call succeeds")
	vnd.Assert(vnd.And(vnd.And(ga == float64(x), gb == int64(k)), vnd.And(gc == uint8(y), gd == z)), "arguments converted across classes")
	got, ok := res["r"].(bool)
	vnd.Assert(ok && got, "the rule sees the result")
	untouched(d, s, p, q, "")
}
`)
	add("C_func_big_into_float", "call", "unsigned arguments above MaxInt64 and large negative arguments into float parameters", `func C_func_big_into_float() {
	d, s, p, q := newD()
	dc := inject(d, p)
	var ga, gc float64
	var gb float32
	dc.Add("fn", func(a float64, b float32, c float64) bool { ga, gb, gc = a, b, c; return true })
	kb, kc := vnd.Uint8("kb"), vnd.Uint8("kc")
	ubig := uint64(1)<<63 + uint64(kb)<<40
	xbig := -(int64(1) << 62) - int64(kc)<<40
	dc.Add("ubig", ubig)
	dc.Add("xbig", xbig)
	err, res := exec(dc, " return fn(ubig, ubig, xbig)")
	vnd.Reach("executed")
	vnd.Assert(err == nil, "the call succeeds")
	vnd.Assert(vnd.And(ga == float64(ubig), vnd.And(gb == float32(ubig), gc == float64(xbig))), "arguments converted across classes")
	got, ok := res["r"].(bool)
	vnd.Assert(ok && got, "the rule sees the result")
	untouched(d, s, p, q, "")
}
`)
	add("C_func_literals_expr", "call", "literal, expression and nested-call arguments", `func C_func_literals_expr() {
	d, s, p, q := newD()
	dc := inject(d, p)
	var ga, gb int64
	var gs string
	dc.Add("fn", func(a int64, e string, b int64) int64 { ga, gs, gb = a, e, b; return a + b })
	dc.Add("twice", func(a int64) int64 { return 2 * a })
	x := vnd.Int64("x")
	dc.Add("x", x)
	err, res := exec(dc, " return fn(7, \"lit\", twice(x + 1))")
	vnd.Reach("executed")
	vnd.Assert(err == nil, "the call succeeds")
	vnd.Assert(vnd.And(ga == 7, gb == 2*(x+1)), "arguments positional")
	vnd.Assert(gs == "lit", "string literal argument")
	got, ok := res["r"].(int64)
	vnd.Assert(ok && got == 7+2*(x+1), "result")
	untouched(d, s, p, q, "")
}
`)
	add("C_methods", "call", "pointer- and value-receiver methods, two and three levels, first result only", `func C_methods() {
	d, s, p, q := newD()
	dc := inject(d, p)
	x := vnd.Int64("x")
	vnd.Assume(vnd.And(x >= 0, x <= 255))
	dc.Add("x", x)
	err, res := exec(dc, " a = d.PM(x)\n b = d.VM(x)\n c = d.P.Get(x)\n e = d.In.VGet(x)\n f = d.Two()\n return a + c + e + f")
	vnd.Reach("executed")
	vnd.Assert(err == nil, "the calls succeed")
	got, ok := res["r"].(int64)
	vnd.Assert(ok, "result type")
	vnd.Assert(got == d.I64+d.P.A+(d.In.A+1)+11, "methods see their receiver and only the first result is used")
	vnd.Assert(lastI == x, "the last call received the converted argument")
	untouched(d, s, p, q, "")
}
`)
	add("C_multi_result", "call", "functions and methods with several results yield their first one, whatever the others are", `func C_multi_result() {
	d, s, p, q := newD()
	dc := inject(d, p)
	x := vnd.Int64("x")
	dc.Add("x", x)
	fail := vnd.Bool("fail")
	dc.Add("lookup", func(a int64) (int64, error) {
		if fail {
			return a + 1, errors.New("not found")
		}
		return a + 1, nil
	})
	dc.Add("three", func(a int64) (int64, bool, error) { return a * 2, false, errors.New("third") })
	dc.Add("pair", func(a int64) (string, int64) { return "first", a })
	dc.Add("mo", &multiObj{})
	err, res := exec(dc, " a = lookup(x)\n b = three(x)\n c = pair(x)\n e = mo.Find(x)\n if c == \"first\" {\n  return a + b + e\n }\n return 0")
	vnd.Reach("executed")
	vnd.Assert(err == nil, "a non-nil trailing result does not fail the call")
	got, ok := res["r"].(int64)
	vnd.Assert(ok, "result type")
	vnd.Assert(got == (x+1)+2*x+(x+3), "every call yields its first result")
	untouched(d, s, p, q, "")
}

type multiObj struct{}

func (m *multiObj) Find(a int64) (int64, error) { return a + 3, errors.New("method error") }
`)
	add("C_same_named_types", "read", "two distinct struct types that print alike (same name, different field order) are read and written by field name", `func C_same_named_types() {
	d, s, p, q := newD()
	dc := inject(d, p)
	a, b2 := vnd.Int64("a"), vnd.Int64("b")
	o1, price1, count1 := mkOrderA(a, b2)
	o2, price2, count2 := mkOrderB(a, b2)
	for round, o := range []interface{}{o1, o2, o1} {
		dc.Add("O", o)
		err, res := exec(dc, " O.Count = O.Count + 1\n O.In.Seen = 7\n return O.Price")
		vnd.Assert(err == nil, "the rule succeeds")
		got, ok := res["r"].(int64)
		vnd.Assert(ok && got == a, "a field is read by its name, whatever other type printed alike was used before")
		_ = round
	}
	vnd.Reach("executed")
	vnd.Assert(*price1 == a && *price2 == a, "the read field stays untouched")
	vnd.Assert(*count1 == b2+2 && *count2 == b2+1, "the assigned field is the named one")
	untouched(d, s, p, q, "")
}

func mkOrderA(price, count int64) (interface{}, *int64, *int64) {
	type In struct {
		Tag  string
		Seen int64
	}
	type Order struct {
		Price int64
		Count int64
		In    *In
		Spare *In
	}
	o := &Order{Price: price, Count: count, In: &In{}, Spare: &In{}}
	return o, &o.Price, &o.Count
}

func mkOrderB(price, count int64) (interface{}, *int64, *int64) {
	type In struct {
		Seen int64
		Tag  string
	}
	type Order struct {
		Count int64
		Spare *In
		Price int64
		In    *In
	}
	o := &Order{Price: price, Count: count, In: &In{}, Spare: &In{}}
	return o, &o.Price, &o.Count
}
`)
	add("C_param_order", "call", "numeric parameters after string / bool ones are converted like any other", `func C_param_order() {
	d, s, p, q := newD()
	dc := inject(d, p)
	x := vnd.Int64("x")
	vnd.Assume(vnd.And(x >= 0, x <= 100))
	dc.Add("x", x)
	var gs string
	var gn int
	var gb bool
	var gf float32
	var gu uint8
	calls := 0
	dc.Add("fn", func(s string, n int, b bool, f float32, u uint8) int64 { gs, gn, gb, gf, gu = s, n, b, f, u; calls++; return 1 })
	dc.Add("po", &paramObj{})
	err, _ := exec(dc, " a = fn(\"abc\", x, true, 2, 200)\n b = po.Put(false, x, \"s\", 7)\n return a + b")
	vnd.Reach("executed")
	vnd.Assert(err == nil, "the calls succeed")
	vnd.Assert(calls == 1 && gs == "abc" && gn == int(x) && gb && gf == 2 && gu == 200, "arguments positional, converted to the declared parameter types")
	vnd.Assert(lastPut.b == false && lastPut.i == int32(x) && lastPut.s == "s" && lastPut.u == 7, "method arguments positional, converted to the declared parameter types")
	untouched(d, s, p, q, "")
}

type paramObj struct{}

type putRec struct {
	b bool
	i int32
	s string
	u uint16
}

var lastPut putRec

func (o *paramObj) Put(b bool, i int32, s string, u uint16) int64 { lastPut = putRec{b, i, s, u}; return 2 }
`)
	// every numeric parameter type x every source class
	for _, pt := range []string{"int", "int8", "int16", "int32", "int64", "uint", "uint8", "uint16", "uint32", "uint64", "float32", "float64"} {
		for _, src := range sources[:3] {
			name := "P_" + pt + "_" + src.id
			rep := representable(src, pt)
			add(name, "call-param:"+pt, fmt.Sprintf("fn(%s) with parameter type %s", src.rule, pt), fmt.Sprintf(`func %s() {
	d, s, p, q := newD()
	dc := inject(d, p)
	var got %s
	n := 0
	dc.Add("fn", func(a %s) int64 { got = a; n++; return 1 })
	dc.Add("obj", &argObj{})
%s	vnd.Assume(%s)
	err, _ := exec(dc, %q)
	vnd.Reach("executed")
	vnd.Assert(err == nil, "the call succeeds")
	vnd.Assert(n == 1, "called once")
	vnd.Assert(got == %s(%s), "the argument arrives converted to the declared parameter type")
	untouched(d, s, p, q, "")
}
`, name, pt, pt, src.decl, rep, " return fn("+src.rule+")", pt, src.goExpr))
		}
	}
	add("F_rebind_local", "frame", "a local first bound to the value of a host location and then re-assigned leaves the host location alone", `func F_rebind_local() {
	d, s, p, q := newD()
	dc := inject(d, p)
	err, res := exec(dc, " c = d.I64\n c = 7\n n = d.S\n n = \"changed\"\n e = d.SL[1]\n e = 99\n g = d.P.A\n g = 1\n h = d.B\n h = !h\n return c")
	vnd.Reach("executed")
	vnd.Assert(err == nil, "the rule succeeds")
	got, ok := res["r"].(int64)
	vnd.Assert(ok && got == 7, "the local holds what was assigned last")
	untouched(d, s, p, q, "")
}
`)
	add("C_local_then_injected", "shadow", "a name injected after a local of that name was assigned denotes the injected object", `func C_local_then_injected() {
	d, s, p, q := newD()
	dc := inject(d, p)
	v := vnd.Int64("v")
	dc.Add("inject", func() { dc.Add("late", v) })
	err, res := exec(dc, " late = 5\n inject()\n return late")
	vnd.Reach("executed")
	vnd.Assert(err == nil, "the rule succeeds")
	got, ok := res["r"].(int64)
	vnd.Assert(ok && got == v, "once injected, the name refers to the injected object although a local of that name exists")
	untouched(d, s, p, q, "")
}
`)
	add("C_injected_name_wins", "shadow", "an injected name always denotes the injected object", `func C_injected_name_wins() {
	d, s, p, q := newD()
	dc := inject(d, p)
	dc.Add("n", int64(7))
	err, res := exec(dc, " pi = 5\n t = pi\n return n")
	vnd.Reach("executed")
	vnd.Assert(err == nil, "assigning through the injected pointer succeeds")
	vnd.Assert(*p.pi == 5, "the host observes the value, no local shadows the injected pointer")
	got, ok := res["r"].(int64)
	vnd.Assert(ok && got == 7, "injected value read back")
	err2, res2 := exec(dc, " n = 9\n return n")
	_ = err2
	if v, has := res2["r"]; has {
		g2, ok2 := v.(int64)
		vnd.Assert(ok2 && g2 == 7, "an injected value is never shadowed by a local of the same name")
	}
	untouched(d, s, p, q, "pi")
}
`)
	head := "package " + pkg + "\n\nimport (\n\t\"errors\"\n\n\t\"github.com/bilibili/gengine/builder\"\n\t\"github.com/bilibili/gengine/context\"\n\t\"github.com/bilibili/gengine/engine\"\n\t\"github.com/bilibili/gengine/zz_verif/vnd\"\n)\n" + c03Lib
	fam.Files[repoDir+"/zz_verif/"+pkg+"/h.go"] = head + b.String()
	fam.TestFile = repoDir + "/zz_verif/" + pkg + "/zz_replay_test.go"
	fam.TestSrc = testFile(pkg, fam.Instances)
	return fam, nil
}
