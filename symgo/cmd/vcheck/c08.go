package main

import (
	"fmt"
	"strings"

	"symgo/interp"
)

func init() { generators["C08"] = genC08 }

const c08Lib = `
// spec is the denoted rule set: name -> (version, salience, description).
type specRule struct {
	ver  int64
	sal  int64
	desc string
}

func verRule(name string, ver int64, sal int64, desc string) string {
	d := ""
	if desc != "" {
		d = " \"" + desc + "\""
	}
	return "rule \"" + name + "\"" + d + " salience " + vnd.SalText(sal) + "\nbegin\n ver(\"" + name + "\", " + strconv.Itoa(int(ver)) + ")\nend\n"
}

var lastVer = map[string]int64{}
var runOrder []string

func newBuilder() *builder.RuleBuilder {
	dc := context.NewDataContext()
	dc.Add("ver", func(name string, v int64) {
		lastVer[name] = v
		runOrder = append(runOrder, name)
		vnd.Event(name + "#" + strconv.Itoa(int(v)))
	})
	return builder.NewRuleBuilder(dc)
}

// checkSet: representation invariant of the container, agreement with the
// spec, existence queries, and the observable order of the sort model.
func checkSet(rb *builder.RuleBuilder, spec map[string]specRule, absent []string) {
	kc := rb.Kc
	vnd.Assert(len(kc.RuleEntities) == len(spec), "exactly the denoted names are installed")
	vnd.Assert(len(kc.SortRules) == len(spec), "the sorted list has one entry per rule (names stay unique)")
	vnd.Assert(len(kc.SortRulesIndexMap) == len(spec) || len(spec) == 0, "the index map has one entry per rule")
	for name, want := range spec {
		r, ok := kc.RuleEntities[name]
		vnd.Assert(ok, "a denoted rule is installed")
		if !ok {
			return
		}
		vnd.Assert(r.RuleName == name, "installed under its own name")
		vnd.Assert(r.Salience == want.sal, "current salience")
		vnd.Assert(r.RuleDescription == want.desc, "current description")
		pos, okp := kc.SortRulesIndexMap[name]
		vnd.Assert(okp, "the index map knows the rule")
		vnd.Assert(pos >= 0 && pos < len(kc.SortRules), "index in range")
		if pos >= 0 && pos < len(kc.SortRules) {
			vnd.Assert(kc.SortRules[pos] == r, "the index map points at the rule")
		}
	}
	for k := 0; k+1 < len(kc.SortRules); k++ {
		vnd.Assert(kc.SortRules[k].Salience >= kc.SortRules[k+1].Salience, "sorted list non-increasing in the current saliences")
	}
	var names []string
	for name := range spec {
		names = append(names, name)
	}
	names = append(names, absent...)
	ex := rb.IsExist(names)
	for k, name := range names {
		_, want := spec[name]
		vnd.Assert(ex[k] == want, "existence query agrees with the set")
	}
	// observable behaviour
	runOrder = nil
	for n := range lastVer {
		delete(lastVer, n)
	}
	eng := engine.NewGengine()
	err := eng.Execute(rb, true)
	if len(spec) == 0 {
		vnd.Assert(err != nil, "an empty set runs nothing")
		vnd.Assert(len(runOrder) == 0, "an empty set runs nothing")
		return
	}
	vnd.Assert(err == nil, "the installed set executes")
	vnd.Assert(len(runOrder) == len(spec), "every installed rule runs exactly once")
	for name, want := range spec {
		vnd.Assert(lastVer[name] == want.ver, "the current body of the rule runs")
	}
	for k := 0; k+1 < len(runOrder); k++ {
		vnd.Assert(spec[runOrder[k]].sal >= spec[runOrder[k+1]].sal, "the sort model runs in non-increasing order of the current saliences")
	}
}

// arbitraryState turns the container into an arbitrary one satisfying the
// representation invariant: the installed rules get the symbolic saliences and
// are placed in an arbitrary order that is non-increasing (every arrangement
// of ties included); the index map is set accordingly.
func arbitraryState(rb *builder.RuleBuilder, names []string, sal []int64) {
	n := len(names)
	perms := [][]int{{0}}
	if n == 2 {
		perms = [][]int{{0, 1}, {1, 0}}
	}
	if n == 3 {
		perms = [][]int{{0, 1, 2}, {0, 2, 1}, {1, 0, 2}, {1, 2, 0}, {2, 0, 1}, {2, 1, 0}}
	}
	p := perms[vnd.Choice("perm", len(perms))]
	kc := rb.Kc
	sorted := make([]*base.RuleEntity, n)
	idx := map[string]int{}
	for pos, i := range p {
		r := kc.RuleEntities[names[i]]
		r.Salience = sal[i]
		sorted[pos] = r
		idx[names[i]] = pos
	}
	for pos := 0; pos+1 < n; pos++ {
		vnd.Assume(sorted[pos].Salience >= sorted[pos+1].Salience)
	}
	kc.SortRules = sorted
	kc.SortRulesIndexMap = idx
}

func mustOK(err error, what string) {
	if err != nil {
		vnd.Assert(false, what+" must succeed")
	}
}
`

func genC08(tier string, seed int64) (*Family, error) {
	pkg := "c08"
	fam := &Family{
		Prop: "C08", PkgPath: modPath + "/zz_verif/" + pkg, Files: map[string]string{},
		Bounds:    map[string]interface{}{"installed_rules_before_the_step": "0..3", "rules_per_incremental_call": "1..2 (thorough 3)", "removal_lists": "every subset incl. absent names", "steps": "one operation from an arbitrary state, plus two-step sequences"},
		Cfg:       interp.Config{MaxSteps: 4_000_000, MaxPaths: 60000},
		Functions: []string{"builder.RuleBuilder).BuildRuleFromString", "builder.RuleBuilder).BuildRuleWithIncremental", "builder.RuleBuilder).RemoveRules", "builder.RuleBuilder).IsExist", "tool.BinarySearch"},
	}
	fam.Assumptions = []string{
		"inductive step: the pre-state is an arbitrary container satisfying the representation invariant (rule objects from a real build; symbolic saliences; an arbitrary non-increasing arrangement chosen by the solver, every arrangement of ties included; index map = positions; unique names); one operation with symbolic saliences is then applied and the invariant plus the denoted set are re-established, so sequences of any length stay inside the invariant for the bounded container size",
		"rule bodies carry a version tag observed through an injected function; 'body replaced' means the new tag runs",
		"map iteration orders: all permutations for <= 3 entries, identity / reverse / rotations above",
	}
	fam.Outside = []string{"containers with more than 3 rules before the step (5 after)", "more rules per call than the bound"}
	var b strings.Builder
	names := []string{"a", "b", "c"}
	add := func(name, stratum, desc, body string) {
		fmt.Fprintf(&b, "\n// %s\nfunc %s() {\n%s\tvnd.Reach(\"executed\")\n}\n", desc, name, body)
		fam.Instances = append(fam.Instances, Instance{Func: name, Stratum: stratum, Desc: desc, Expect: []string{"executed"}})
	}
	// pre(n): full build of n rules with symbolic saliences, all map orders
	pre := func(n int) string {
		var s strings.Builder
		s.WriteString("\trb := newBuilder()\n\tspec := map[string]specRule{}\n\told := map[string]*base.RuleEntity{}\n\t_, _ = spec, old\n\ttext := \"\"\n\tvar sal []int64\n")
		for i := 0; i < n; i++ {
			fmt.Fprintf(&s, "\ts%d := vnd.Int64(\"s%d\")\n\tsal = append(sal, s%d)\n\ttext += verRule(%q, 1, 0, \"d%s\")\n\tspec[%q] = specRule{1, s%d, \"d%s\"}\n", i, i, i, names[i], names[i], names[i], i, names[i])
		}
		if n > 0 {
			fmt.Fprintf(&s, "\tmustOK(rb.BuildRuleFromString(text), \"full build\")\n\tarbitraryState(rb, %s, sal)\n\tfor k, v := range rb.Kc.RuleEntities {\n\t\told[k] = v\n\t}\n", goStrings(names[:n]))
		} else {
			s.WriteString("\t_, _ = text, sal\n")
		}
		return s.String()
	}
	untouched := func(except []string) string {
		return fmt.Sprintf("\tfor k, v := range old {\n\t\tskip := false\n\t\tfor _, e := range %s {\n\t\t\tif e == k {\n\t\t\t\tskip = true\n\t\t\t}\n\t\t}\n\t\tif !skip {\n\t\t\tvnd.Assert(rb.Kc.RuleEntities[k] == v, \"untouched rules keep their identity\")\n\t\t}\n\t}\n", goStrings(except))
	}
	maxInc := 2
	if tier == "thorough" {
		maxInc = 3
	}
	// base case
	add("B_fresh_builder", "base", "a fresh builder denotes the empty set", "\trb := newBuilder()\n\tcheckSet(rb, map[string]specRule{}, []string{\"a\"})\n")
	for n := 0; n <= 3; n++ {
		// full build replaces everything
		add(fmt.Sprintf("S_full_%d", n), "full", fmt.Sprintf("full build over %d installed rules replaces everything", n),
			pre(n)+"\tn1, n2 := vnd.Int64(\"n1\"), vnd.Int64(\"n2\")\n\tvnd.ExploreMapOrder(true)\n\tmustOK(rb.BuildRuleFromString(verRule(\"b\", 2, n1, \"\")+verRule(\"x\", 2, n2, \"dx\")), \"full build\")\n\tvnd.ExploreMapOrder(false)\n\tcheckSet(rb, map[string]specRule{\"b\": {2, n1, \"\"}, \"x\": {2, n2, \"dx\"}}, []string{\"a\", \"c\"})\n")
		if n == 0 {
			continue
		}
		// incremental: every non-empty list of <= maxInc distinct names among existing + fresh {x, y}
		pool := append(append([]string{}, names[:n]...), "x", "y")
		var lists [][]string
		var rec func(cur []string, from int)
		lim := maxInc
		if n == 3 && lim > 2 {
			lim = 2 // three rules per call only over containers of <= 2 rules (path count)
		}
		rec = func(cur []string, from int) {
			if len(cur) > 0 {
				lists = append(lists, append([]string{}, cur...))
			}
			if len(cur) == lim {
				return
			}
			for k := from; k < len(pool); k++ {
				rec(append(cur, pool[k]), k+1)
			}
		}
		rec(nil, 0)
		for _, l := range lists {
			if n == 3 && tier != "thorough" && len(l) == 2 && !(l[0] == "a" && (l[1] == "b" || l[1] == "x")) {
				continue
			}
			var body strings.Builder
			body.WriteString(pre(n))
			body.WriteString("\tinc := \"\"\n")
			for k, nm := range l {
				fmt.Fprintf(&body, "\tq%d := vnd.Int64(\"q%d\")\n\tinc += verRule(%q, 2, q%d, \"new%s\")\n\tspec[%q] = specRule{2, q%d, \"new%s\"}\n", k, k, nm, k, nm, nm, k, nm)
			}
			body.WriteString("\tvnd.ExploreMapOrder(true)\n\tmustOK(rb.BuildRuleWithIncremental(inc), \"incremental build\")\n\tvnd.ExploreMapOrder(false)\n")
			body.WriteString(untouched(l))
			body.WriteString("\tcheckSet(rb, spec, []string{\"zz\"})\n")
			add(fmt.Sprintf("S_incr_%d_%s", n, strings.Join(l, "")), fmt.Sprintf("incremental/n=%d/k=%d", n, len(l)), fmt.Sprintf("incremental build of %v over %d installed rules", l, n), body.String())
		}
		// incremental with the same salience (replace in place)
		add(fmt.Sprintf("S_incr_samesal_%d", n), "incremental/same-salience", fmt.Sprintf("incremental build replacing rule a with the same salience, %d installed", n),
			pre(n)+"\tmustOK(rb.BuildRuleWithIncremental(verRule(\"a\", 2, s0, \"newa\")), \"incremental build\")\n\tspec[\"a\"] = specRule{2, s0, \"newa\"}\n"+untouched([]string{"a"})+"\tcheckSet(rb, spec, nil)\n")
		// removal: every subset of existing names plus an absent name
		for mask := 0; mask < 1<<n; mask++ {
			for _, variant := range []string{"", "absent-last", "absent-first", "repeat-first"} {
				var rm []string
				for i := 0; i < n; i++ {
					if mask&(1<<i) != 0 {
						rm = append(rm, names[i])
					}
				}
				switch variant {
				case "absent-last":
					rm = append(rm, "zz")
				case "absent-first":
					if len(rm) == 0 {
						continue
					}
					rm = append([]string{"zz"}, rm...)
				case "repeat-first":
					if len(rm) < 2 {
						continue
					}
					rm = append([]string{rm[0]}, rm...)
				}
				if len(rm) == 0 {
					continue
				}
				var body strings.Builder
				body.WriteString(pre(n))
				fmt.Fprintf(&body, "\tvnd.ExploreMapOrder(true)\n\tmustOK(rb.RemoveRules(%s), \"removal\")\n\tvnd.ExploreMapOrder(false)\n", goStrings(rm))
				for _, nm := range rm {
					fmt.Fprintf(&body, "\tdelete(spec, %q)\n", nm)
				}
				body.WriteString(untouched(rm))
				fmt.Fprintf(&body, "\tcheckSet(rb, spec, %s)\n", goStrings(rm))
				add(fmt.Sprintf("S_remove_%d_%s", n, strings.Join(rm, "")), fmt.Sprintf("removal/n=%d", n), fmt.Sprintf("removal of %v from %d installed rules", rm, n), body.String())
			}
		}
	}
	// a larger concrete pre-state (six and eight rules with distinct saliences) with a symbolic
	// salience for the added or moved rule: the binary search takes several probes here
	for _, v := range []struct{ id, sals, newName, desc string }{
		{"six_add", "10,9,8,7,6,5", "x", "a seventh rule added to six installed ones"},
		{"six_move", "10,9,8,7,6,5", "c", "the third of six installed rules re-submitted with another salience"},
		{"eight_add", "20,18,16,14,12,10,8,6", "x", "a ninth rule added to eight installed ones"},
	} {
		sl := strings.Split(v.sals, ",")
		var body strings.Builder
		body.WriteString("\trb := newBuilder()\n\tspec := map[string]specRule{}\n\ttext := \"\"\n")
		for k, sv := range sl {
			nm := string(rune('a' + k))
			fmt.Fprintf(&body, "\ttext += verRule(%q, 1, %s, \"d%s\")\n\tspec[%q] = specRule{1, %s, \"d%s\"}\n", nm, sv, nm, nm, sv, nm)
		}
		fmt.Fprintf(&body, "\tmustOK(rb.BuildRuleFromString(text), \"full build\")\n\tq := vnd.Int64(\"q\")\n\tmustOK(rb.BuildRuleWithIncremental(verRule(%q, 2, q, \"nn\")), \"incremental build\")\n\tspec[%q] = specRule{2, q, \"nn\"}\n\tcheckSet(rb, spec, []string{\"zz\"})\n", v.newName, v.newName)
		add("S_"+v.id, "incremental/larger-set", v.desc, body.String())
	}
	// rules without a salience clause have salience 0 in full and incremental builds, whatever stands before them
	add("S_default_salience", "default-salience", "clause-less rules after rules with saliences, full build then incremental re-send",
		"\trb := newBuilder()\n\tsa, sb := vnd.Int64(\"sa\"), vnd.Int64(\"sb\")\n\tnosal := func(name string, ver int) string {\n\t\treturn \"rule \\\"\" + name + \"\\\" \\\"d\" + name + \"\\\"\\nbegin\\n ver(\\\"\" + name + \"\\\", \" + strconv.Itoa(ver) + \")\\nend\\n\"\n\t}\n"+
			"\tvnd.ExploreMapOrder(true)\n\tmustOK(rb.BuildRuleFromString(verRule(\"a\", 1, sa, \"da\")+nosal(\"b\", 1)+verRule(\"c\", 1, sb, \"dc\")+nosal(\"d\", 1)), \"full build\")\n\tvnd.ExploreMapOrder(false)\n"+
			"\tspec := map[string]specRule{\"a\": {1, sa, \"da\"}, \"b\": {1, 0, \"db\"}, \"c\": {1, sb, \"dc\"}, \"d\": {1, 0, \"dd\"}}\n\tcheckSet(rb, spec, nil)\n"+
			"\tq := vnd.Int64(\"q\")\n\tmustOK(rb.BuildRuleWithIncremental(verRule(\"x\", 2, q, \"dx\")+nosal(\"b\", 2)+nosal(\"y\", 2)), \"incremental build\")\n"+
			"\tspec[\"x\"] = specRule{2, q, \"dx\"}\n\tspec[\"b\"] = specRule{2, 0, \"db\"}\n\tspec[\"y\"] = specRule{2, 0, \"dy\"}\n\tcheckSet(rb, spec, nil)\n")
	// names that differ only in letter case are different rules for every operation
	add("S_case_names", "case-names", "Alpha / alpha / BETA / beta: removal and incremental builds treat them as four rules",
		"\trb := newBuilder()\n\tmustOK(rb.BuildRuleFromString(verRule(\"Alpha\", 1, 4, \"d1\")+verRule(\"alpha\", 1, 3, \"d2\")+verRule(\"BETA\", 1, 2, \"d3\")+verRule(\"beta\", 1, 1, \"d4\")), \"full build\")\n"+
			"\tspec := map[string]specRule{\"Alpha\": {1, 4, \"d1\"}, \"alpha\": {1, 3, \"d2\"}, \"BETA\": {1, 2, \"d3\"}, \"beta\": {1, 1, \"d4\"}}\n\tcheckSet(rb, spec, []string{\"ALPHA\", \"Beta\"})\n"+
			"\tmustOK(rb.BuildRuleWithIncremental(verRule(\"ALPHA\", 2, 9, \"n\")), \"incremental build\")\n\tspec[\"ALPHA\"] = specRule{2, 9, \"n\"}\n\tcheckSet(rb, spec, []string{\"Beta\"})\n"+
			"\tmustOK(rb.RemoveRules([]string{\"alpha\", \"nope\", \"BETA\"}), \"removal\")\n\tdelete(spec, \"alpha\")\n\tdelete(spec, \"BETA\")\n\tcheckSet(rb, spec, []string{\"alpha\", \"BETA\", \"Beta\"})\n")
	// rejected calls leave the set alone
	add("S_remove_nothing", "rejected", "removing an empty list fails and changes nothing",
		pre(2)+"\terr := rb.RemoveRules(nil)\n\tvnd.Assert(err != nil, \"an empty removal list is rejected\")\n\tcheckSet(rb, spec, nil)\n")
	add("S_incr_blank", "rejected", "a blank incremental text fails and changes nothing",
		pre(2)+"\terr := rb.BuildRuleWithIncremental(\"  \\n\")\n\tvnd.Assert(err != nil, \"blank text is rejected\")\n\tcheckSet(rb, spec, nil)\n")
	// texts the grammar accepts and the listener rejects (a name twice, an empty name, a salience beyond int64)
	for k, bad := range []string{
		`verRule("x", 2, 5, "") + verRule("y", 2, 4, "") + verRule("x", 3, 3, "")`,
		`verRule("x", 2, 5, "") + "rule \"\" begin\n ver(\"e\", 2)\nend\n"`,
		`verRule("x", 2, 5, "") + "rule \"y\" salience 99999999999999999999 begin\n ver(\"y\", 2)\nend\n"`,
	} {
		add(fmt.Sprintf("S_full_listener_reject_%d", k), "rejected", "a full build the listener rejects fails and changes nothing",
			pre(2)+"\terr := rb.BuildRuleFromString("+bad+")\n\tvnd.Assert(err != nil, \"the text is rejected\")\n\tcheckSet(rb, spec, []string{\"x\", \"y\"})\n")
		add(fmt.Sprintf("S_incr_listener_reject_%d", k), "rejected", "an incremental build the listener rejects fails and changes nothing",
			pre(2)+"\terr := rb.BuildRuleWithIncremental("+bad+")\n\tvnd.Assert(err != nil, \"the text is rejected\")\n\tcheckSet(rb, spec, []string{\"x\", \"y\"})\n")
	}
	// two-step sequences (histories): incremental then removal, removal then incremental, incremental twice
	add("H_incr_then_remove", "sequence", "incremental {b,x} then removal {a,x}",
		pre(2)+"\tq0, q1 := vnd.Int64(\"q0\"), vnd.Int64(\"q1\")\n\tvnd.ExploreMapOrder(true)\n\tmustOK(rb.BuildRuleWithIncremental(verRule(\"b\", 2, q0, \"nb\")+verRule(\"x\", 2, q1, \"nx\")), \"incremental\")\n\tmustOK(rb.RemoveRules([]string{\"a\", \"x\"}), \"removal\")\n\tvnd.ExploreMapOrder(false)\n\tdelete(spec, \"a\")\n\tspec[\"b\"] = specRule{2, q0, \"nb\"}\n\tcheckSet(rb, spec, []string{\"a\", \"x\"})\n")
	add("H_remove_then_incr", "sequence", "removal {b} then incremental {b,c}",
		pre(2)+"\tq0, q1 := vnd.Int64(\"q0\"), vnd.Int64(\"q1\")\n\tvnd.ExploreMapOrder(true)\n\tmustOK(rb.RemoveRules([]string{\"b\"}), \"removal\")\n\tmustOK(rb.BuildRuleWithIncremental(verRule(\"b\", 3, q0, \"nb\")+verRule(\"c\", 3, q1, \"nc\")), \"incremental\")\n\tvnd.ExploreMapOrder(false)\n\tspec[\"b\"] = specRule{3, q0, \"nb\"}\n\tspec[\"c\"] = specRule{3, q1, \"nc\"}\n\tcheckSet(rb, spec, []string{\"x\"})\n")
	add("H_incr_twice", "sequence", "incremental {a} then incremental {a,y}",
		pre(2)+"\tq0, q1, q2 := vnd.Int64(\"q0\"), vnd.Int64(\"q1\"), vnd.Int64(\"q2\")\n\tmustOK(rb.BuildRuleWithIncremental(verRule(\"a\", 2, q0, \"a2\")), \"incremental\")\n\tvnd.ExploreMapOrder(true)\n\tmustOK(rb.BuildRuleWithIncremental(verRule(\"a\", 3, q1, \"a3\")+verRule(\"y\", 3, q2, \"y3\")), \"incremental\")\n\tvnd.ExploreMapOrder(false)\n\tspec[\"a\"] = specRule{3, q1, \"a3\"}\n\tspec[\"y\"] = specRule{3, q2, \"y3\"}\n\tcheckSet(rb, spec, nil)\n")
	head := "package " + pkg + "\n\nimport (\n\t\"strconv\"\n\n\t\"github.com/bilibili/gengine/builder\"\n\t\"github.com/bilibili/gengine/context\"\n\t\"github.com/bilibili/gengine/engine\"\n\t\"github.com/bilibili/gengine/internal/base\"\n\t\"github.com/bilibili/gengine/zz_verif/vnd\"\n)\n\nvar _ *base.RuleEntity\n" + c08Lib
	fam.Files[repoDir+"/zz_verif/"+pkg+"/h.go"] = head + b.String()
	fam.TestFile = repoDir + "/zz_verif/" + pkg + "/zz_replay_test.go"
	fam.TestSrc = testFile(pkg, fam.Instances)
	return fam, nil
}
