package main

import (
	"fmt"
	"strings"

	"symgo/interp"
)

func init() {
	generators["C07"] = genC07
	generators["C19"] = genC19
}

const c07Lib = `
// version-tagged rules: a (salience 9) optionally triggers the update before
// announcing itself, b (5), c (1), d (0, only in some versions)
func zzVRule(name string, ver int, sal string, upd bool) string {
	u := ""
	if upd {
		u = " upd()\n"
	}
	return "rule \"" + name + "\" \"d" + name + "\" salience " + sal + "\nbegin\n" + u + " ver(\"" + name + "\", " + strconv.Itoa(ver) + ")\nend\n"
}

func zzVText(ver int, upd bool, names string) string {
	t := ""
	sal := map[byte]string{'a': "9", 'b': "5", 'c': "1", 'd': "0", 'n': "7", 'm': "3"}
	for i := 0; i < len(names); i++ {
		t += zzVRule(string(names[i]), ver, sal[names[i]], upd && names[i] == 'a')
	}
	return t
}

type zzUpd struct {
	kind  string // full, incr, remove, clear
	fn    func(gp *GenginePool) error
	after map[string]int64 // denoted set after the update (name -> version)
}

func zzUpdates() []zzUpd {
	return []zzUpd{
		{"full", func(gp *GenginePool) error { return gp.UpdatePooledRules(zzVText(2, false, "abc")) }, map[string]int64{"a": 2, "b": 2, "c": 2}},
		{"fullset", func(gp *GenginePool) error { return gp.UpdatePooledRules(zzVText(2, false, "abd")) }, map[string]int64{"a": 2, "b": 2, "d": 2}},
		{"incr", func(gp *GenginePool) error { return zzExplored(func() error { return gp.UpdatePooledRulesIncremental(zzVText(2, false, "b")) }) }, map[string]int64{"a": 1, "b": 2, "c": 1}},
		{"incradd", func(gp *GenginePool) error { return zzExplored(func() error { return gp.UpdatePooledRulesIncremental(zzVText(2, false, "cd")) }) }, map[string]int64{"a": 1, "b": 1, "c": 2, "d": 2}},
		{"remove", func(gp *GenginePool) error { return gp.RemoveRules([]string{"c"}) }, map[string]int64{"a": 1, "b": 1}},
		{"clear", func(gp *GenginePool) error { gp.ClearPoolRules(); return nil }, map[string]int64{}},
		{"incrmove", func(gp *GenginePool) error { return zzExplored(func() error { return gp.UpdatePooledRulesIncremental(zzVRule("b", 2, "8", false)) }) }, map[string]int64{"a": 1, "b": 2, "c": 1}},
		{"removefirst", func(gp *GenginePool) error { return gp.RemoveRules([]string{"a"}) }, map[string]int64{"b": 1, "c": 1}},
		{"incrmix", func(gp *GenginePool) error { return zzExplored(func() error { return gp.UpdatePooledRulesIncremental(zzVText(2, false, "nbmc")) }) }, map[string]int64{"a": 1, "n": 2, "b": 2, "m": 2, "c": 2}},
		{"removetwo", func(gp *GenginePool) error { return zzExplored(func() error { return gp.RemoveRules([]string{"a", "c"}) }) }, map[string]int64{"b": 1}},
		{"removethree", func(gp *GenginePool) error {
			return zzExplored(func() error { return gp.RemoveRules([]string{"c", "zz", "b", "a"}) })
		}, map[string]int64{}},
	}
}

// zzExplored runs an update with the iteration order of the rule maps explored
// (the merge order of an incremental update depends on it).
func zzExplored(f func() error) error {
	vnd.ExploreMapOrder(true)
	err := f()
	vnd.ExploreMapOrder(false)
	return err
}

// zzRan collects name -> list of versions announced since mark.
func zzRan(from int) map[string][]int64 {
	out := map[string][]int64{}
	for _, e := range vnd.Trace()[from:] {
		for k := 0; k < len(e); k++ {
			if e[k] == '#' {
				v, _ := strconv.Atoi(e[k+1:])
				out[e[:k]] = append(out[e[:k]], int64(v))
			}
		}
	}
	return out
}

// zzOneVersion: what ran is consistent with exactly one of the two versions:
// every rule that ran announced the version it has in that set, no rule ran
// twice, and no rule outside that set ran.
func zzOneVersion(ran map[string][]int64, v1, v2 map[string]int64, scope string) {
	// the rules of version v that this model schedules: all of them, the three
	// highest-priority ones (N+M = 3), or the named ones
	expected := func(v map[string]int64) map[string]int64 {
		out := map[string]int64{}
		switch scope {
		case "top3":
			n := 0
			for _, name := range []string{"a", "b", "c", "d"} {
				if ver, ok := v[name]; ok && n < 3 {
					out[name] = ver
					n++
				}
			}
		case "abc":
			for _, name := range []string{"a", "b", "c"} {
				if ver, ok := v[name]; ok {
					out[name] = ver
				}
			}
		default:
			for name, ver := range v {
				out[name] = ver
			}
		}
		return out
	}
	fits := func(v map[string]int64) bool {
		want := expected(v)
		if len(want) != len(ran) {
			return false
		}
		for name, vs := range ran {
			w, ok := want[name]
			if !ok || len(vs) != 1 || vs[0] != w {
				return false
			}
		}
		return true
	}
	vnd.Assert(fits(v1) || fits(v2), "an execution runs all rules of exactly one installed version and none of another")
}

func zzExactly(ran map[string][]int64, v map[string]int64, what string) {
	vnd.Assert(len(ran) == len(v), what)
	for name, want := range v {
		vs := ran[name]
		vnd.Assert(len(vs) == 1 && vs[0] == want, what)
	}
}
`

// execution models the pool offers, as calls on gp with data
func c07Scope(model string) string {
	switch model {
	case "ExecuteNSortMConcurrent", "ExecuteNConcurrentMSort", "ExecuteNConcurrentMConcurrent":
		return "top3"
	case "ExecuteSelectedRules", "ExecuteSelectedRulesConcurrent", "ExecuteSelectedNSortMConcurrent", "ExecuteSelectedWithSpecifiedEM":
		return "abc"
	}
	return "all"
}

func c07Models() []poolCall {
	names := "[]string{\"a\", \"b\", \"c\"}"
	return []poolCall{
		{"Execute", "gp.Execute(data, true)", 0},
		{"ExecuteConcurrent", "gp.ExecuteConcurrent(data)", 0},
		{"ExecuteMixModel", "gp.ExecuteMixModel(data)", 0},
		{"ExecuteInverseMixModel", "gp.ExecuteInverseMixModel(data)", 0},
		{"ExecuteNSortMConcurrent", "gp.ExecuteNSortMConcurrent(1, 2, true, data)", 0},
		{"ExecuteNConcurrentMSort", "gp.ExecuteNConcurrentMSort(1, 2, true, data)", 0},
		{"ExecuteNConcurrentMConcurrent", "gp.ExecuteNConcurrentMConcurrent(1, 2, true, data)", 0},
		{"ExecuteDAGModel", "gp.ExecuteDAGModel([][]string{{\"a\"}, {\"b\"}, {\"c\", \"d\"}}, data)", 0},
		{"ExecuteSelectedRules", "gp.ExecuteSelectedRules(data, " + names + ")", 0},
		{"ExecuteSelectedRulesConcurrent", "gp.ExecuteSelectedRulesConcurrent(data, " + names + ")", 0},
		{"ExecuteSelectedNSortMConcurrent", "gp.ExecuteSelectedNSortMConcurrent(1, 2, true, " + names + ", data)", 0},
		{"ExecuteWithStopTagDirect", "gp.ExecuteWithStopTagDirect(data, true, &Stag{})", 0},
		{"ExecuteRulesWithMultiInputWithSpecifiedEM", "gp.ExecuteRulesWithMultiInputWithSpecifiedEM(data)", 0},
		{"ExecuteSelectedWithSpecifiedEM", "gp.ExecuteSelectedWithSpecifiedEM(data, " + names + ")", 0},
	}
}

func genC07(tier string, seed int64) (*Family, error) {
	fam := &Family{
		Prop: "C07", Files: map[string]string{},
		Bounds: map[string]interface{}{"pool": "(1,2): one initial and one additional instance", "updates_per_scenario": "1 (thorough: 2 in sequence)", "update_kinds": "full (same names / other names), incremental (replace / add), removal, clear", "models": len(c07Models()), "where_the_update_lands": "inside the highest-priority rule of the running execution (same thread, or another thread while that rule is held)"},
		Cfg:    interp.Config{MaxSteps: 8_000_000},
		Functions: []string{"engine.GenginePool).UpdatePooledRules", "engine.GenginePool).UpdatePooledRulesIncremental", "engine.GenginePool).RemoveRules", "engine.GenginePool).ClearPoolRules",
			"engine.updateIncremental", "engine.GenginePool).prepareWithMultiInput"},
	}
	fam.Assumptions = []string{
		"an update lands while an execution is running: the running execution's first rule calls an injected function that performs the update (the statement includes updates triggered from inside a running rule), or holds there while another goroutine performs it; this places the update between any two stages / layers / rules of every model",
		"versions are observed through the version tag each rule announces; an execution is atomic when what ran fits exactly one of the versions installed during the scenario",
		"visibility: after the update call returned, an execution forced onto each instance (initial and additional) runs exactly the new version",
		"updates landing between two engine-internal reads with no rule in between are covered by the race query of C19 on the same state (every read of published state must be ordered with the update)",
	}
	fam.Outside = []string{"weak memory effects (schedules are sequentially consistent)", "more than two updates per scenario"}
	var b strings.Builder
	b.WriteString(c16LibRunOn)
	b.WriteString(c07Lib)
	for _, m := range c07Models() {
		for ui, u := range []string{"full", "fullset", "incr", "incradd", "remove", "clear"} {
			for _, inst := range []int{0, 1} {
				if tier != "thorough" && inst == 1 && !(u == "full" || u == "incr") {
					continue
				}
				name := fmt.Sprintf("A_%s_%s_i%d", m.name, u, inst)
				fmt.Fprintf(&b, `
// %s on instance %d while update %s lands inside rule a
func %s() {
	apis := zzApis()
	var gp *GenginePool
	upd := zzUpdates()[%d]
	fired := 0
	apis["upd"] = func() {
		fired++
		if fired == 1 {
			zzMust(upd.fn(gp), "the update succeeds")
		}
	}
	var e error
	gp, e = NewGenginePool(1, 2, SortModel, zzVText(1, true, "abc"), apis)
	zzMust(e, "pool construction")
	v1 := map[string]int64{"a": 1, "b": 1, "c": 1}
	var held *gengineWrapper
	if %d == 1 {
		held, _ = gp.getGengine()
	}
	mark := len(vnd.Trace())
	data := map[string]interface{}{"req": int64(1)}
	err, _ := %s
	_ = err
	if held != nil {
		gp.putGengineLocked(held)
	}
	vnd.Quiesce()
	vnd.Reach("executed")
	vnd.Assert(fired >= 1, "the update was triggered from inside the running rule")
	zzOneVersion(zzRan(mark), v1, upd.after, %q)
	// visibility on every instance
	for which := 0; which < 2; which++ {
		mark = len(vnd.Trace())
		zzRunOn(gp, which)
		zzExactly(zzRan(mark), upd.after, "after the update returned every later execution, on any instance, runs the new version")
	}
}
`, m.name, inst, u, name, ui, inst, m.call, c07Scope(m.name))
				fam.Instances = append(fam.Instances, Instance{Func: name, Stratum: m.name + "/" + u, Desc: fmt.Sprintf("%s on instance %d, update %s inside rule a", m.name, inst, u), Expect: []string{"executed"}})
			}
		}
	}
	// the update performed by another goroutine while rule a is held
	for _, m := range c07Models()[:8] {
		for ui, u := range []string{"full", "incr"} {
			idx := map[string]int{"full": 0, "incr": 2}[u]
			_ = ui
			name := fmt.Sprintf("X_%s_%s", m.name, u)
			fmt.Fprintf(&b, `
// %s while another goroutine performs update %s and rule a is held
func %s() {
	apis := zzApis()
	var gate sync.Mutex
	gate.Lock()
	waits := 0
	apis["upd"] = func() {
		waits++
		if waits == 1 {
			gate.Lock()
			gate.Unlock()
		}
	}
	gp, e := NewGenginePool(1, 2, SortModel, zzVText(1, true, "abc"), apis)
	zzMust(e, "pool construction")
	upd := zzUpdates()[%d]
	v1 := map[string]int64{"a": 1, "b": 1, "c": 1}
	mark := len(vnd.Trace())
	var wg sync.WaitGroup
	wg.Add(1)
	go func() {
		defer wg.Done()
		data := map[string]interface{}{"req": int64(1)}
		%s
	}()
	vnd.Quiesce() // the execution is now held inside rule a
	zzMust(upd.fn(gp), "the update succeeds")
	gate.Unlock()
	wg.Wait()
	vnd.Quiesce()
	vnd.Reach("executed")
	zzOneVersion(zzRan(mark), v1, upd.after, %q)
	for which := 0; which < 2; which++ {
		mark = len(vnd.Trace())
		zzRunOn(gp, which)
		zzExactly(zzRan(mark), upd.after, "after the update returned every later execution, on any instance, runs the new version")
	}
}
`, m.name, u, name, idx, m.call, c07Scope(m.name))
			fam.Instances = append(fam.Instances, Instance{Func: name, Stratum: "cross-thread/" + m.name, Desc: fmt.Sprintf("%s with update %s from another goroutine", m.name, u), Expect: []string{"executed"}})
		}
	}
	// sequences of updates with no execution running: every later execution sees the last version
	seqs := []struct {
		id    string
		steps []int
		after string
	}{
		{"clear_incr", []int{5, 2}, "map[string]int64{\"b\": 2}"},
		{"clear_incradd", []int{5, 3}, "map[string]int64{\"c\": 2, \"d\": 2}"},
		{"clear_full", []int{5, 0}, "map[string]int64{\"a\": 2, \"b\": 2, \"c\": 2}"},
		{"remove_incr", []int{4, 2}, "map[string]int64{\"a\": 1, \"b\": 2}"},
		{"remove_incradd", []int{4, 3}, "map[string]int64{\"a\": 1, \"b\": 1, \"c\": 2, \"d\": 2}"},
		{"incr_remove", []int{2, 4}, "map[string]int64{\"a\": 1, \"b\": 2}"},
		{"full_incradd_clear_incr", []int{1, 3, 5, 2}, "map[string]int64{\"b\": 2}"},
		{"incrmove", []int{6}, "map[string]int64{\"a\": 1, \"b\": 2, \"c\": 1}"},
		{"removefirst_incr", []int{7, 2}, "map[string]int64{\"b\": 2, \"c\": 1}"},
		{"removefirst_incrmove", []int{7, 6}, "map[string]int64{\"b\": 2, \"c\": 1}"},
		{"removetwo", []int{9}, "map[string]int64{\"b\": 1}"},
		{"removethree", []int{10}, "map[string]int64{}"},
		{"incradd_removetwo", []int{3, 9}, "map[string]int64{\"b\": 1, \"d\": 2}"},
		{"incrmix", []int{8}, "map[string]int64{\"a\": 1, \"n\": 2, \"b\": 2, \"m\": 2, \"c\": 2}"},
		{"remove_incrmix", []int{4, 8}, "map[string]int64{\"a\": 1, \"n\": 2, \"b\": 2, \"m\": 2, \"c\": 2}"},
		{"incradd_incrmix", []int{3, 8}, "map[string]int64{\"a\": 1, \"n\": 2, \"b\": 2, \"m\": 2, \"c\": 2, \"d\": 2}"},
	}
	for _, sq := range seqs {
		name := "V_" + sq.id
		var steps []string
		for _, k := range sq.steps {
			steps = append(steps, fmt.Sprint(k))
		}
		fmt.Fprintf(&b, `
// updates %s in sequence, then executions in several models on both instances
func %s() {
	gp, e := NewGenginePool(1, 2, SortModel, zzVText(1, false, "abc"), zzApis())
	zzMust(e, "pool construction")
	for _, k := range []int{%s} {
		zzMust(zzUpdates()[k].fn(gp), "the update succeeds")
	}
	after := %s
	for which := 0; which < 2; which++ {
		for model := 0; model < 3; model++ {
			var held *gengineWrapper
			if which == 1 {
				held, _ = gp.getGengine()
			}
			mark := len(vnd.Trace())
			data := map[string]interface{}{"req": int64(1)}
			switch model {
			case 0:
				gp.Execute(data, true)
			case 1:
				gp.ExecuteConcurrent(data)
			default:
				gp.ExecuteRulesWithMultiInputWithSpecifiedEM(data)
			}
			if held != nil {
				gp.putGengineLocked(held)
			}
			vnd.Quiesce()
			zzExactly(zzRan(mark), after, "after the updates returned every later execution, on any instance and in any model, runs the last version")
		}
	}
	vnd.Reach("executed")
}
`, sq.id, name, strings.Join(steps, ", "), sq.after)
		fam.Instances = append(fam.Instances, Instance{Func: name, Stratum: "sequence", Desc: "updates " + sq.id + " then executions", Expect: []string{"executed"}})
	}
	finishPoolFamily(fam, "C07", b.String())
	for p, src := range fam.Files {
		if strings.HasSuffix(p, "zz_vh_c07.go") {
			fam.Files[p] = strings.Replace(src, "import (\n\t\"strconv\"", "import (\n\t\"strconv\"\n\t\"sync\"", 1)
		}
	}
	return fam, nil
}

// c16LibRunOn: zzRunOn shared with C16 (forces an execution onto an instance).
const c16LibRunOn = `
func zzRunOn(gp *GenginePool, which int) (error, map[string]interface{}) {
	var held *gengineWrapper
	if which == 1 {
		held, _ = gp.getGengine()
	}
	err, res := gp.Execute(map[string]interface{}{"req": int64(1)}, true)
	if held != nil {
		gp.putGengineLocked(held)
	}
	vnd.Quiesce()
	return err, res
}
`

func genC19(tier string, seed int64) (*Family, error) {
	fam := &Family{
		Prop: "C19", BothOrders: true, Files: map[string]string{},
		Bounds: map[string]interface{}{"goroutines": "<= 3 client goroutines plus those gengine starts", "scenarios": "every concurrent engine model, conc blocks, two pool requests, pool request with each management operation, get/put pairs"},
		Cfg: interp.Config{MaxSteps: 8_000_000,
			TrackFields: []string{"engine.Gengine.returnResult", "engine.GenginePool.freeGengines", "engine.GenginePool.additionGengines", "engine.GenginePool.ruleBuilder", "engine.GenginePool.execModel", "engine.GenginePool.clear",
				"engine.gengineWrapper.rulebuilder", "builder.RuleBuilder.Kc", "base.KnowledgeContext.RuleEntities", "base.KnowledgeContext.SortRules", "base.KnowledgeContext.SortRulesIndexMap", "context.DataContext.base"},
			TrackAllocs: []string{"*"}, TrackMakeMaps: []string{"base.RuleEntity).Execute"}, TrackStructsOf: []string{"base"}},
		Functions: []string{"engine.GenginePool).getGengine", "engine.GenginePool).putGengineLocked", "engine.Gengine).addResult", "DataContext).Add", "DataContext).Del"},
	}
	fam.Assumptions = []string{
		"a data race = two accesses to the same tracked location from different goroutines, at least one a write, that are adjacent in some consistent interleaving of the extracted event structure (program order, spawn, mutex exclusion, WaitGroup counting)",
		"tracked locations are gengine's own state: pool bookkeeping fields, the result map, the per-execution local map, the data context map, the published rule set (builder.Kc and the container's three fields), the captured error slices; injected user data is not tracked",
		"every reported pair is confirmed under go test -race before it is reported",
	}
	fam.Outside = []string{"weak-memory behaviours of racy code (racy code is reported instead)", "races on injected user objects"}
	var b strings.Builder
	b.WriteString(c16LibRunOn)
	b.WriteString(c07Lib)
	// staged models over three rules with a symbolic error policy, two calls on one engine: a rule
	// goroutine that outlives the call would touch the map the caller holds or the next call's map
	n3 := namesLit(3)
	for _, m := range []struct{ id, call string }{
		{"NSortMConc_1_2", "eng.ExecuteNSortMConcurrent(1, 2, rb, pol)"},
		{"NConcMSort_2_1", "eng.ExecuteNConcurrentMSort(2, 1, rb, pol)"},
		{"NConcMConc_2_1", "eng.ExecuteNConcurrentMConcurrent(2, 1, rb, pol)"},
		{"NConcMConc_1_2", "eng.ExecuteNConcurrentMConcurrent(1, 2, rb, pol)"},
		{"SelNSortMConc_1_2", "eng.ExecuteSelectedNSortMConcurrent(1, 2, rb, pol, " + n3 + ")"},
		{"SelNConcMSort_2_1", "eng.ExecuteSelectedNConcurrentMSort(2, 1, rb, pol, " + n3 + ")"},
		{"SelNConcMConc_2_1", "eng.ExecuteSelectedNConcurrentMConcurrent(2, 1, rb, pol, " + n3 + ")"},
	} {
		name := "E2_" + m.id
		fmt.Fprintf(&b, `
// %s with a symbolic policy and failing subset, twice on one engine
func %s() {
	n := 3
	f := symFlags("f", n)
	g := symFlags("g", n)
	pol := vnd.Bool("pol")
	dc := newDC(f)
	addFlags(dc, "g", g)
	addVals(dc, "v", []int64{1, 2, 3})
	rb := buildTextPlain(dc, rulesTextOpt(n, fixedSal(n), "g"))
	eng := NewGengine()
	err := %s
	_ = err
	res, _ := eng.GetRulesResultMap()
	k := 0
	for range res {
		k++
	}
	addFlags(dc, "f", allFalse(n))
	err = %s
	res2, _ := eng.GetRulesResultMap()
	for range res2 {
		k++
	}
	vnd.Reach("executed")
	vnd.NoRaces("")
}
`, m.id, name, m.call, m.call)
		fam.Instances = append(fam.Instances, Instance{Func: name, Stratum: "engine-staged", Desc: m.id + " twice with a symbolic policy", Expect: []string{"executed"}})
	}
	// engine-level: every model with goroutines
	for _, m := range engineModels() {
		if !m.conc {
			continue
		}
		name := "E_" + m.name
		call := strings.ReplaceAll(m.call, "eng.", "eng.")
		call = strings.ReplaceAll(call, "&engine.Stag{}", "&Stag{}")
		fmt.Fprintf(&b, `
// engine model %s: result map, error slice, local maps, data context
func %s() {
	n := %d
	f := symFlags("f", n)
	g := symFlags("g", n)
	dc := newDC(f)
	addFlags(dc, "g", g)
	addVals(dc, "v", []int64{1, 2, 3})
	rb := buildTextPlain(dc, rulesTextOpt(n, fixedSal(n), "g"))
	eng := NewGengine()
	err := %s
	_ = err
	res, _ := eng.GetRulesResultMap()
	_ = len(res)
	vnd.Reach("executed")
	vnd.NoRaces("")
}
`, m.fn, name, m.n, call)
		fam.Instances = append(fam.Instances, Instance{Func: name, Stratum: "engine/" + m.fn, Desc: "races inside " + m.fn, Expect: []string{"executed"}})
	}
	// conc blocks: every member kind, receivers in the data context and in a rule local
	b.WriteString(`
type zzObj struct{ N int64 }

func (o *zzObj) Touch(p bool) int64 {
	if p {
		panic("boom")
	}
	return o.N
}

func C_conc_blocks() {
	p := symFlags("p", 4)
	dc := newDC(nil)
	addFlags(dc, "p", p)
	dc.Add("mk", func() *zzObj { return &zzObj{N: 3} })
	dc.Add("obj", &zzObj{N: 5})
	dc.Add("fn", func(q bool) int64 {
		if q {
			panic("boom")
		}
		return 1
	})
	rb := buildTextPlain(dc, "rule \"r\" begin\n o = mk()\n conc {\n  a = fn(p0)\n  o.Touch(p1)\n  b = obj.Touch(p2)\n  fn(p3)\n  c = 7\n }\n return a + b + c\nend\n")
	eng := NewGengine()
	err := eng.Execute(rb, true)
	_ = err
	vnd.Reach("executed")
	vnd.NoRaces("")
}
`)
	b.WriteString(`
type zzOuter struct{ In *zzObj }

// conc blocks with two and three members of one kind (three-level calls, method calls, function calls, assignments)
func C_conc_same_kind() {
	dc := newDC(nil)
	dc.Add("w", &zzOuter{In: &zzObj{N: 4}})
	dc.Add("obj", &zzObj{N: 5})
	dc.Add("fn", func(q bool) int64 { return 1 })
	rb := buildTextPlain(dc, "rule \"r\" begin\n conc {\n  w.In.Touch(false)\n  w.In.Touch(false)\n  w.In.Touch(false)\n }\n conc {\n  obj.Touch(false)\n  obj.Touch(false)\n }\n conc {\n  fn(false)\n  fn(false)\n }\n conc {\n  a = 1\n  b = 2\n }\n return a + b\nend\n")
	eng := NewGengine()
	err := eng.Execute(rb, true)
	vnd.Assert(err == nil, "no member fails")
	vnd.Reach("executed")
	vnd.NoRaces("")
}
`)
	// round 7 (seed C19-m13): receivers of every call kind held in rule locals, next to assignments to other locals
	b.WriteString(`
func C_conc_local_receivers() {
	dc := newDC(nil)
	dc.Add("mkw", func() *zzOuter { return &zzOuter{In: &zzObj{N: 4}} })
	dc.Add("mk", func() *zzObj { return &zzObj{N: 3} })
	rb := buildTextPlain(dc, "rule \"r\" begin\n h = mkw()\n o = mk()\n conc {\n  h.In.Touch(false)\n  a = 1\n  o.Touch(false)\n  b = 2\n  h.In.Touch(false)\n  c = 3\n }\n return a + b + c\nend\n")
	eng := NewGengine()
	err := eng.Execute(rb, true)
	vnd.Assert(err == nil, "no member fails")
	vnd.Reach("executed")
	vnd.NoRaces("")
}
`)
	fam.Instances = append(fam.Instances, Instance{Func: "C_conc_local_receivers", Stratum: "conc", Desc: "conc block with three-level and method calls on rule-local receivers next to assignments to locals", Expect: []string{"executed"}})
	fam.Instances = append(fam.Instances, Instance{Func: "C_conc_same_kind", Stratum: "conc", Desc: "conc blocks with several members of one kind", Expect: []string{"executed"}})
	fam.Instances = append(fam.Instances, Instance{Func: "C_conc_blocks", Stratum: "conc", Desc: "conc block with every member kind, local and injected receivers", Expect: []string{"executed"}})
	// pool: two requests
	b.WriteString(`
func zzClient(gp *GenginePool, wg *sync.WaitGroup, f func()) {
	wg.Add(1)
	go func() {
		defer wg.Done()
		f()
	}()
}

// two client goroutines issue requests
func P_two_requests() {
	gp, e := NewGenginePool(1, 2, SortModel, zzVText(1, false, "abc"), zzApis())
	zzMust(e, "pool construction")
	var wg sync.WaitGroup
	zzClient(gp, &wg, func() { gp.Execute(map[string]interface{}{"req": int64(1)}, true) })
	zzClient(gp, &wg, func() { gp.ExecuteConcurrent(map[string]interface{}{"req": int64(2)}) })
	wg.Wait()
	vnd.Quiesce()
	vnd.Reach("executed")
	vnd.NoRaces("")
}

// two requests execute the same rich rule at once: the published rule set (every field of every AST node) is only read
func P_shared_rule_set() {
	text := "rule \"k\" begin\n x = M[7] + SL[1]\n y = MS[\"k\"]\n if x > 1 {\n  z = obj.Touch(false)\n } else if y == 3 {\n  z = 1\n } else {\n  z = 2\n }\n for i = 0; i < 2; i += 1 {\n  x += i\n  if i == 5 {\n   break\n  }\n }\n forRange q := SL {\n  y += q\n  continue\n }\n M[8] = x\n conc {\n  a = fn(false)\n  b = obj.Touch(false)\n }\n w = !(x < y) && (MS[key] != 2 || true)\n return x + y + @sal\nend\n"
	apis := zzApis()
	apis["fn"] = func(q bool) int64 { return 1 }
	gp, e := NewGenginePool(1, 2, SortModel, text, apis)
	zzMust(e, "pool construction")
	var wg sync.WaitGroup
	for r := 0; r < 2; r++ {
		data := map[string]interface{}{"M": map[int64]int64{7: int64(r)}, "MS": map[string]int64{"k": 1}, "SL": []int64{1, 2}, "obj": &zzObj{N: 2}, "key": "k"}
		zzClient(gp, &wg, func() {
			err, _ := gp.Execute(data, true)
			_ = err
		})
	}
	wg.Wait()
	vnd.Quiesce()
	vnd.Reach("executed")
	vnd.NoRaces("")
}

// three requests on a pool of two: hand-back and re-use
func P_three_requests() {
	gp, e := NewGenginePool(1, 2, SortModel, zzVText(1, false, "ab"), zzApis())
	zzMust(e, "pool construction")
	var wg sync.WaitGroup
	zzClient(gp, &wg, func() { gp.Execute(map[string]interface{}{"req": int64(1)}, true) })
	wg.Wait()
	vnd.Quiesce()
	zzClient(gp, &wg, func() { gp.ExecuteMixModel(map[string]interface{}{"req": int64(2)}) })
	zzClient(gp, &wg, func() { gp.ExecuteSelectedRules(map[string]interface{}{"req": int64(3)}, []string{"a"}) })
	wg.Wait()
	vnd.Quiesce()
	vnd.Reach("executed")
	vnd.NoRaces("")
}
`)
	b.WriteString(`
// three requests in flight on a (1,3) pool: two are held inside rule a (the initial and one additional instance),
// a third one takes and returns the other additional instance while the host lets the held ones go
func P_three_in_flight() {
	apis := zzApis()
	apis["upd"] = func() {}
	gp, e := NewGenginePool(1, 3, SortModel, zzVText(1, true, "ab"), apis)
	zzMust(e, "pool construction")
	var gate sync.Mutex
	gate.Lock()
	hold := func() {
		gate.Lock()
		gate.Unlock()
	}
	var wg sync.WaitGroup
	zzClient(gp, &wg, func() { gp.Execute(map[string]interface{}{"req": int64(1), "upd": hold}, true) })
	zzClient(gp, &wg, func() { gp.ExecuteConcurrent(map[string]interface{}{"req": int64(2), "upd": hold}) })
	vnd.Quiesce() // both are inside rule a
	zzClient(gp, &wg, func() { gp.ExecuteSelectedRules(map[string]interface{}{"req": int64(3)}, []string{"a", "b"}) })
	gate.Unlock()
	wg.Wait()
	vnd.Quiesce()
	vnd.Reach("executed")
	vnd.NoRaces("")
}
`)
	fam.Instances = append(fam.Instances, Instance{Func: "P_three_in_flight", Stratum: "pool/requests", Desc: "three requests in flight on a (1,3) pool, two held inside a rule", Expect: []string{"executed"}, Nondet: true})
	fam.Instances = append(fam.Instances, Instance{Func: "P_shared_rule_set", Stratum: "pool/requests", Desc: "two requests executing one rule with every construct kind", Expect: []string{"executed"}, Nondet: true, OneOrd: true})
	fam.Instances = append(fam.Instances, Instance{Func: "P_two_requests", Stratum: "pool/requests", Desc: "two concurrent pool requests", Expect: []string{"executed"}},
		Instance{Func: "P_three_requests", Stratum: "pool/requests", Desc: "three pool requests with hand-back", Expect: []string{"executed"}})
	// a failed request, then two overlapping ones: whatever the failure path did to the pool's
	// bookkeeping shows up as two requests on one engine
	b.WriteString(`
const zzFailText = "rule \"a\" salience 9\nbegin\n ev(\"a.s\")\n x = req\n ev(\"a.e\")\n return x\nend\nrule \"b\" salience 5\nbegin\n ev(\"b.s\")\n if fail {\n  y = one / zero\n }\n ev(\"b.e\")\n return resp\nend\n"
`)
	for _, pc := range poolCalls() {
		name := "PF_" + pc.name
		fmt.Fprintf(&b, `
// %s with a failing rule, then two overlapping requests
func %s() {
	apis := zzApis()
	apis["one"], apis["zero"], apis["fail"] = int64(1), int64(0), false
	gp, e := NewGenginePool(1, 2, SortModel, zzFailText, apis)
	zzMust(e, "pool construction")
	names := []string{"a", "b"}
	stag := &Stag{}
	_, _ = names, stag
	pol := vnd.Bool("pol")
	_ = pol
	data := map[string]interface{}{"req": int64(1), "resp": int64(5), "fail": true}
	_, _ = %s
	vnd.Quiesce()
	var gate sync.Mutex
	gate.Lock()
	var wg sync.WaitGroup
	wg.Add(1)
	go func() {
		defer wg.Done()
		gp.ExecuteSelectedRules(map[string]interface{}{"req": int64(2), "resp": int64(1), "ev": func(s string) {
			vnd.Event("one:" + s)
			if s == "a.s" {
				gate.Lock() // blocks until the host lets go
				gate.Unlock()
			}
		}}, []string{"a"})
	}()
	vnd.Quiesce() // the first request is now blocked inside rule a, holding an instance
	gp.ExecuteSelectedRules(map[string]interface{}{"req": int64(3), "resp": int64(2)}, []string{"a"})
	gate.Unlock()
	wg.Wait()
	vnd.Quiesce()
	vnd.Reach("executed")
	vnd.NoRaces("")
}
`, pc.name, name, strings.ReplaceAll(strings.ReplaceAll(pc.call, ", true, ", ", pol, "), "data, true)", "data, pol)"))
		fam.Instances = append(fam.Instances, Instance{Func: name, Stratum: "pool/after-failure", Desc: pc.name + " fails, then two overlapping requests", Expect: []string{"executed"}, Nondet: true})
	}
	for ui, u := range []string{"full", "fullset", "incr", "incradd", "remove", "clear"} {
		for _, m := range []poolCall{{"Execute", "gp.Execute(data, true)", 0}, {"ExecuteNSortMConcurrent", "gp.ExecuteNSortMConcurrent(1, 1, true, data)", 0}, {"ExecuteDAGModel", "gp.ExecuteDAGModel([][]string{{\"a\"}, {\"b\"}}, data)", 0}, {"ExecuteRulesWithMultiInputWithSpecifiedEM", "gp.ExecuteRulesWithMultiInputWithSpecifiedEM(data)", 0}} {
			if tier != "thorough" && m.name != "Execute" && !(u == "full" || u == "incr" || u == "clear" || (u == "remove" && m.name == "ExecuteDAGModel")) {
				continue
			}
			name := fmt.Sprintf("U_%s_%s", m.name, u)
			fmt.Fprintf(&b, `
// a request (%s) concurrent with management operation %s
func %s() {
	apis := zzApis()
	// natively the first rule naps (no synchronisation) while the management operation runs
	apis["upd"] = func() {
		vnd.Event("in-a")
		vnd.Nap()
	}
	gp, e := NewGenginePool(1, 2, SortModel, zzVText(1, true, "abc"), apis)
	zzMust(e, "pool construction")
	upd := zzUpdates()[%d]
	var wg sync.WaitGroup
	zzClient(gp, &wg, func() {
		data := map[string]interface{}{"req": int64(1)}
		%s
	})
	zzClient(gp, &wg, func() {
		vnd.WaitFor("in-a")
		upd.fn(gp)
	})
	wg.Wait()
	vnd.Quiesce()
	vnd.Reach("executed")
	vnd.NoRaces("")
}
`, m.name, u, name, ui, m.call)
			fam.Instances = append(fam.Instances, Instance{Func: name, Stratum: "pool/update:" + u, Desc: fmt.Sprintf("%s concurrent with %s", m.name, u), Expect: []string{"executed"}, Nondet: true})
		}
	}
	b.WriteString(`
// a request concurrent with a model change and with the read-only queries
func U_setmodel_and_queries() {
	gp, e := NewGenginePool(1, 2, SortModel, zzVText(1, false, "abc"), zzApis())
	zzMust(e, "pool construction")
	var wg sync.WaitGroup
	zzClient(gp, &wg, func() { gp.ExecuteRulesWithMultiInputWithSpecifiedEM(map[string]interface{}{"req": int64(1)}) })
	zzClient(gp, &wg, func() { gp.SetExecModel(ConcurrentModel) })
	zzClient(gp, &wg, func() {
		gp.IsExist([]string{"a"})
		gp.GetRulesNumber()
		gp.GetExecModel()
		gp.GetRuleSalience("a")
	})
	wg.Wait()
	vnd.Quiesce()
	vnd.Reach("executed")
	vnd.NoRaces("")
}
`)
	fam.Instances = append(fam.Instances, Instance{Func: "U_setmodel_and_queries", Stratum: "pool/update:setmodel", Desc: "request concurrent with SetExecModel and queries", Expect: []string{"executed"}, Nondet: true})
	finishPoolFamily(fam, "C19", b.String())
	for p, src := range fam.Files {
		if strings.HasSuffix(p, "zz_vh_c19.go") {
			fam.Files[p] = strings.Replace(src, "import (\n\t\"strconv\"", "import (\n\t\"strconv\"\n\t\"sync\"", 1)
		}
	}
	// the shared rule-set helpers of hlib, in package engine
	lib := libFile("engine")
	lib = strings.ReplaceAll(lib, "\t\"github.com/bilibili/gengine/builder\"\n", "\t\"github.com/bilibili/gengine/builder\"\n")
	fam.Files[repoDir+"/engine/zz_vh_hlib.go"] = lib
	return fam, nil
}
