package main

import (
	"fmt"
	"strings"

	"symgo/interp"
)

func init() { generators["C01"] = genC01 }

// ---- reference expression language (independent of gengine's grammar) ------

type kindInfo struct {
	goType string // Go type and vnd constructor suffix
	vnd    string
	class  byte // 'I' signed, 'U' unsigned, 'F' float, 'S' string, 'B' bool
}

var kinds = []kindInfo{
	{"int", "Int", 'I'}, {"int8", "Int8", 'I'}, {"int16", "Int16", 'I'}, {"int32", "Int32", 'I'}, {"int64", "Int64", 'I'},
	{"uint", "Uint", 'U'}, {"uint8", "Uint8", 'U'}, {"uint16", "Uint16", 'U'}, {"uint32", "Uint32", 'U'}, {"uint64", "Uint64", 'U'},
	{"float32", "Float32", 'F'}, {"float64", "Float64", 'F'},
	{"string", "String", 'S'}, {"bool", "Bool", 'B'},
}

func kindByName(n string) kindInfo {
	for _, k := range kinds {
		if k.goType == n {
			return k
		}
	}
	panic("kind " + n)
}

// expr is a node of the reference parse.
type expr struct {
	op    string // binary operator, "!" , "()" (parenthesis), "var", "lit"
	l, r  *expr
	name  string // variable
	kind  kindInfo
	lit   string // literal text in the rule
	goLit string // literal as Go expression of its class type
	class byte   // filled by typeOf
}

func prec(op string) int {
	switch op {
	case "*", "/":
		return 4
	case "+", "-":
		return 3
	case "==", "!=", "<", ">", "<=", ">=":
		return 2
	case "&&", "||":
		return 1
	}
	return 0
}

// parseRef parses a token list with the documented precedence table; all
// binary operators associate to the left.
type refParser struct {
	toks []interface{} // string operators/parens or *expr atoms
	pos  int
}

func (p *refParser) peek() interface{} {
	if p.pos < len(p.toks) {
		return p.toks[p.pos]
	}
	return nil
}

func (p *refParser) primary() *expr {
	t := p.peek()
	p.pos++
	switch t := t.(type) {
	case *expr:
		return t
	case string:
		switch t {
		case "(":
			e := p.parse(1)
			p.pos++ // ")"
			return &expr{op: "()", l: e}
		case "!":
			e := p.primary()
			return &expr{op: "!", l: e}
		}
	}
	panic(fmt.Sprintf("refParser: unexpected %v", t))
}

func (p *refParser) parse(minPrec int) *expr {
	lhs := p.primary()
	for {
		op, ok := p.peek().(string)
		if !ok || prec(op) < minPrec || prec(op) == 0 {
			return lhs
		}
		p.pos++
		rhs := p.parse(prec(op) + 1)
		lhs = &expr{op: op, l: lhs, r: rhs}
	}
}

func (e *expr) text() string {
	switch e.op {
	case "var":
		return e.name
	case "lit":
		return e.lit
	case "()":
		return "(" + e.l.text() + ")"
	case "!":
		return "!" + e.l.text()
	}
	return e.l.text() + " " + e.op + " " + e.r.text()
}

func toksText(toks []interface{}) string {
	var parts []string
	for _, t := range toks {
		switch t := t.(type) {
		case string:
			parts = append(parts, t)
		case *expr:
			parts = append(parts, t.text())
		}
	}
	s := strings.Join(parts, " ")
	s = strings.ReplaceAll(s, "( ", "(")
	s = strings.ReplaceAll(s, " )", ")")
	s = strings.ReplaceAll(s, "! ", "!")
	return s
}

func isArith(op string) bool { return op == "+" || op == "-" || op == "*" || op == "/" }
func isCmp(op string) bool   { return prec(op) == 2 }
func isLogic(op string) bool { return op == "&&" || op == "||" }

// typeOf computes the class of e (0 = ill-typed somewhere below).
func (e *expr) typeOf() byte {
	switch e.op {
	case "var":
		e.class = e.kind.class
	case "lit":
		// class set by constructor
	case "()":
		e.class = e.l.typeOf()
	case "!":
		if e.l.typeOf() == 'B' {
			e.class = 'B'
		} else {
			e.class = 0
		}
	default:
		a, b := e.l.typeOf(), e.r.typeOf()
		e.class = 0
		if a == 0 || b == 0 {
			return 0
		}
		num := func(c byte) bool { return c == 'I' || c == 'U' || c == 'F' }
		switch {
		case isArith(e.op):
			switch {
			case a == 'S' && b == 'S' && e.op == "+":
				e.class = 'S'
			case num(a) && num(b):
				switch {
				case a == 'F' || b == 'F':
					e.class = 'F'
				case a == 'U' && b == 'U':
					e.class = 'U'
				case a == 'I' && b == 'I':
					e.class = 'I'
				default:
					e.class = 'M' // mixed signed/unsigned: only the bit pattern is asserted
				}
			}
		case isCmp(e.op):
			switch {
			case num(a) && num(b), a == 'S' && b == 'S':
				e.class = 'B'
			case a == 'B' && b == 'B' && (e.op == "==" || e.op == "!="):
				e.class = 'B'
			}
		case isLogic(e.op):
			if a == 'B' && b == 'B' {
				e.class = 'B'
			}
		}
	}
	return e.class
}

// usesMixed reports whether a mixed-sign result feeds another operator.
func (e *expr) mixedInside(top bool) bool {
	if e == nil {
		return false
	}
	if e.class == 'M' && !top {
		return true
	}
	if e.op == "()" {
		return e.l.mixedInside(top)
	}
	return e.l.mixedInside(false) || e.r.mixedInside(false)
}

func goType(c byte) string {
	switch c {
	case 'I', 'M':
		return "int64"
	case 'U':
		return "uint64"
	case 'F':
		return "float64"
	case 'S':
		return "string"
	}
	return "bool"
}

func castTo(c byte, code string, from byte) string {
	if c == from || (c == 'I' && from == 'M') {
		return code
	}
	return goType(c) + "(" + code + ")"
}

// goRef emits the reference value of a well-typed e as Go code and appends
// the zero-divisor conditions to zs.
func (e *expr) goRef(zs *[]string) string {
	switch e.op {
	case "var":
		switch e.kind.class {
		case 'I':
			return "int64(" + e.name + ")"
		case 'U':
			return "uint64(" + e.name + ")"
		case 'F':
			return "float64(" + e.name + ")"
		}
		return e.name
	case "lit":
		return e.goLit
	case "()":
		return e.l.goRef(zs)
	case "!":
		return "vnd.Not(" + e.l.goRef(zs) + ")"
	}
	a, b := e.l.goRef(zs), e.r.goRef(zs)
	ca, cb := e.l.class, e.r.class
	switch {
	case isArith(e.op):
		var x, y string
		switch e.class {
		case 'S':
			return "(" + a + " + " + b + ")"
		case 'F':
			x, y = castTo('F', a, ca), castTo('F', b, cb)
		case 'M':
			x, y = castTo('I', a, ca), castTo('I', b, cb)
		default:
			x, y = a, b
		}
		if e.op == "/" {
			*zs = append(*zs, "("+b+" == 0)")
			fn := map[byte]string{'I': "sdiv", 'M': "sdiv", 'U': "udiv", 'F': "fdiv"}[e.class]
			return fn + "(" + x + ", " + y + ")"
		}
		return "(" + x + " " + e.op + " " + y + ")"
	case isCmp(e.op):
		switch {
		case ca == 'F' || cb == 'F':
			return "(" + castTo('F', a, ca) + " " + e.op + " " + castTo('F', b, cb) + ")"
		case (ca == 'I' || ca == 'M') && cb == 'U':
			return "cmpIU(" + a + ", " + b + ", \"" + e.op + "\")"
		case ca == 'U' && (cb == 'I' || cb == 'M'):
			flip := map[string]string{"<": ">", ">": "<", "<=": ">=", ">=": "<=", "==": "==", "!=": "!="}[e.op]
			return "cmpIU(" + b + ", " + a + ", \"" + flip + "\")"
		}
		return "(" + a + " " + e.op + " " + b + ")"
	default:
		if e.op == "&&" {
			return "vnd.And(" + a + ", " + b + ")"
		}
		return "vnd.Or(" + a + ", " + b + ")"
	}
}

func (e *expr) vars(into *[]*expr) {
	if e == nil {
		return
	}
	if e.op == "var" {
		for _, v := range *into {
			if v.name == e.name {
				return
			}
		}
		*into = append(*into, e)
		return
	}
	e.l.vars(into)
	e.r.vars(into)
}

const c01Lib = `
func sdiv(a, b int64) int64 {
	if b == 0 {
		return 0
	}
	return a / b
}

func udiv(a, b uint64) uint64 {
	if b == 0 {
		return 0
	}
	return a / b
}

func fdiv(a, b float64) float64 { return a / b }

// cmpIU compares a signed with an unsigned integer exactly.
func cmpIU(a int64, b uint64, op string) bool {
	lt := vnd.Or(a < 0, uint64(a) < b)
	eq := vnd.And(a >= 0, uint64(a) == b)
	switch op {
	case "<":
		return lt
	case "<=":
		return vnd.Or(lt, eq)
	case ">":
		return vnd.Not(vnd.Or(lt, eq))
	case ">=":
		return vnd.Not(lt)
	case "==":
		return eq
	}
	return vnd.Not(eq)
}

func feq(a, b float64) bool { return vnd.Or(a == b, vnd.And(a != a, b != b)) }

// bits64 extracts the 64-bit pattern of an integer result.
func bits64(v interface{}) (uint64, bool) {
	switch x := v.(type) {
	case int64:
		return uint64(x), true
	case uint64:
		return x, true
	}
	return 0, false
}

// run compiles and executes one rule text; compiled=false when the text is
// rejected.
func run(dc *context.DataContext, text string) (compiled bool, err error, res map[string]interface{}) {
	rb := builder.NewRuleBuilder(dc)
	if e := rb.BuildRuleFromString(text); e != nil {
		return false, e, nil
	}
	eng := engine.NewGengine()
	err = eng.Execute(rb, true)
	res, _ = eng.GetRulesResultMap()
	return true, err, res
}
`

// c01Instance renders one harness function for rule body `pre; return E`.
func c01Instance(name string, e *expr, text string, pre string, extraDecl string, forceIll bool) string {
	var b strings.Builder
	var vs []*expr
	e.vars(&vs)
	fmt.Fprintf(&b, "func %s() {\n\tdc := context.NewDataContext()\n", name)
	for _, v := range vs {
		fmt.Fprintf(&b, "\t%s := vnd.%s(%q)\n\tdc.Add(%q, %s)\n", v.name, v.kind.vnd, v.name, v.name, v.name)
	}
	b.WriteString(extraDecl)
	rule := "rule \"r\" begin\n" + pre + " return " + text + "\nend"
	fmt.Fprintf(&b, "\tcompiled, err, res := run(dc, %q)\n", rule)
	cls := e.typeOf()
	if forceIll {
		cls = 0
	}
	if cls == 0 {
		b.WriteString("\tif !compiled {\n\t\tvnd.Reach(\"rejected\")\n\t\treturn\n\t}\n\tvnd.Reach(\"executed\")\n")
		b.WriteString("\tvnd.Assert(err != nil, \"an ill-typed operation makes the rule fail\")\n\t_, has := res[\"r\"]\n\tvnd.Assert(!has, \"a failing rule yields no value\")\n}\n")
		return b.String()
	}
	b.WriteString("\tvnd.Assert(compiled, \"a well-typed expression compiles\")\n\tvnd.Reach(\"executed\")\n")
	var zs []string
	ref := e.goRef(&zs)
	bad := "false"
	for _, z := range zs {
		bad = "vnd.Or(" + bad + ", " + z + ")"
	}
	fmt.Fprintf(&b, "\tbad := %s\n\tvnd.Assert(vnd.Iff(err != nil, bad), \"error iff a divisor is zero\")\n", bad)
	b.WriteString("\tif err != nil {\n\t\t_, has := res[\"r\"]\n\t\tvnd.Assert(!has, \"a failing rule yields no value\")\n\t\treturn\n\t}\n")
	switch cls {
	case 'M':
		cond := "true"
		top := e
		for top.op == "()" {
			top = top.l
		}
		if top.op == "/" {
			// signed and unsigned reading of the unsigned operand agree below 2^63 only
			if top.l.class == 'U' {
				cond = "(" + top.l.goRef(new([]string)) + " < 1<<63)"
			} else {
				cond = "(" + top.r.goRef(new([]string)) + " < 1<<63)"
			}
		}
		fmt.Fprintf(&b, "\tgot, ok := bits64(res[\"r\"])\n\tvnd.Assert(ok, \"integer result\")\n\tvnd.Assert(vnd.Implies(%s, got == uint64(%s)), \"value (64-bit pattern)\")\n", cond, ref)
	case 'F':
		fmt.Fprintf(&b, "\tgot, ok := res[\"r\"].(float64)\n\tvnd.Assert(ok, \"result type float64\")\n\tvnd.Assert(feq(got, %s), \"value\")\n", ref)
	default:
		fmt.Fprintf(&b, "\tgot, ok := res[\"r\"].(%s)\n\tvnd.Assert(ok, \"result type %s\")\n\tvnd.Assert(got == %s, \"value\")\n", goType(cls), goType(cls), ref)
	}
	b.WriteString("}\n")
	return b.String()
}

func mkVar(name, kind string) *expr { return &expr{op: "var", name: name, kind: kindByName(kind)} }

func mkLit(text, goLit string, class byte) *expr {
	return &expr{op: "lit", lit: text, goLit: goLit, class: class}
}

var binOps = []string{"+", "-", "*", "/", "==", "!=", "<", ">", "<=", ">=", "&&", "||"}

func opName(op string) string {
	return map[string]string{"+": "add", "-": "sub", "*": "mul", "/": "div", "==": "eq", "!=": "ne", "<": "lt", ">": "gt", "<=": "le", ">=": "ge", "&&": "and", "||": "or"}[op]
}

// leafFor picks a variable of a class suited to operator op's operands.
func leafFor(idx int, op string, variant int) *expr {
	name := fmt.Sprintf("x%d", idx)
	iK := []string{"int64", "int8", "int32", "int", "int16"}
	uK := []string{"uint64", "uint16", "uint8", "uint", "uint32"}
	fK := []string{"float64", "float32"}
	switch {
	case isLogic(op):
		return mkVar(name, "bool")
	default:
		switch variant {
		case 0:
			return mkVar(name, iK[idx%len(iK)])
		case 1:
			return mkVar(name, uK[idx%len(uK)])
		case 2:
			return mkVar(name, fK[idx%len(fK)])
		case 3:
			if idx%2 == 0 {
				return mkVar(name, iK[idx%len(iK)])
			}
			return mkVar(name, fK[idx%len(fK)])
		default:
			return mkVar(name, "string")
		}
	}
}

func genC01(tier string, seed int64) (*Family, error) {
	pkg := "c01"
	fam := &Family{
		Prop:    "C01",
		PkgPath: modPath + "/zz_verif/" + pkg,
		Files:   map[string]string{},
		Bounds:  map[string]interface{}{},
		Cfg:     interp.Config{MaxSteps: 2_000_000},
		Functions: []string{"base.Expression).Evaluate", "base.MathExpression).Evaluate", "base.ExpressionAtom).Evaluate", "base.Constant).Evaluate",
			"core.Add", "core.Sub", "core.Mul", "core.Div", "DataContext).GetValue"},
	}
	fam.Bounds["operators_per_expression"] = map[string]int{"quick": 2, "thorough": 3}[tier]
	fam.Bounds["operand_values"] = "symbolic over the full width of every Go numeric kind, bool, strings of <= 4 printable bytes"
	fam.Assumptions = []string{
		"expression shapes are enumerated (every binary operator x every ordered pair of the 14 operand kinds; every ordered operator pair/triple with and without parentheses); only operand values are universally quantified",
		"the reference side is generated from the driver's own precedence-climbing parse (* / > + - > comparison > && ||, left associative) and Go's arithmetic",
		"mixed signed/unsigned arithmetic: only the 64-bit pattern is asserted; such results never feed another operator in the generated shapes",
		"&& and || operands are side-effect free, so short-circuiting is neither required nor forbidden",
		"ANTLR front end runs natively on each concrete text (parser bridge)",
	}
	fam.Outside = []string{"expressions with more operators than the bound", "NaN payloads", "float to integer conversions", "symbolic strings longer than 4 bytes"}

	var b strings.Builder
	add := func(name, stratum, desc, src string, expect ...string) {
		b.WriteString("\n// " + strings.ReplaceAll(desc, "\n", " ") + "\n" + src)
		if len(expect) == 0 {
			expect = []string{"executed"}
		}
		fam.Instances = append(fam.Instances, Instance{Func: name, Stratum: stratum, Desc: desc, Expect: expect})
	}

	// (a) every binary operator x every ordered pair of operand kinds
	for _, op := range binOps {
		for _, k1 := range kinds {
			for _, k2 := range kinds {
				if tier != "thorough" {
					// quick: all class pairs, widths sampled so that every kind still appears on both sides
					if !(k1.goType == k2.goType || strings.HasSuffix(k1.goType, "64") || strings.HasSuffix(k2.goType, "64") || k1.class == 'S' || k1.class == 'B' || k2.class == 'S' || k2.class == 'B') {
						continue
					}
				}
				e := &expr{op: op, l: mkVar("x", k1.goType), r: mkVar("y", k2.goType)}
				name := fmt.Sprintf("A_%s_%s_%s", opName(op), k1.goType, k2.goType)
				expect := "executed"
				add(name, "single:"+op, fmt.Sprintf("x %s y with x %s, y %s", op, k1.goType, k2.goType), c01Instance(name, e, e.text(), "", "", false), expect)
			}
		}
	}

	// (b) operator sequences through the reference parser
	nOps := 2
	if tier == "thorough" {
		nOps = 3
	}
	var seqs [][]string
	var rec func(cur []string)
	rec = func(cur []string) {
		if len(cur) >= 2 {
			seqs = append(seqs, append([]string{}, cur...))
		}
		if len(cur) == nOps {
			return
		}
		for _, op := range binOps {
			rec(append(cur, op))
		}
	}
	rec(nil)
	variants := []int{0, 2}
	if tier == "thorough" {
		variants = []int{0, 1, 2, 3}
	}
	count := 0
	for _, ops := range seqs {
		if tier == "thorough" && len(ops) == 3 {
			// triples: one variant, rotating
			variants = []int{count % 4}
		} else if tier == "thorough" {
			variants = []int{0, 1, 2, 3}
		}
		for _, variant := range variants {
			// flat sequence and each single parenthesisation of adjacent operands
			for paren := -1; paren < len(ops); paren++ {
				var toks []interface{}
				for k := 0; k <= len(ops); k++ {
					// operand k sits between ops[k-1] and ops[k]
					var ctx string
					if k < len(ops) {
						ctx = ops[k]
					} else {
						ctx = ops[k-1]
					}
					if k > 0 && prec(ops[k-1]) > prec(ctx) {
						ctx = ops[k-1]
					}
					if paren >= 0 && k == paren {
						toks = append(toks, "(")
					}
					toks = append(toks, leafFor(k, ctx, variant))
					if paren >= 0 && k == paren+1 {
						toks = append(toks, ")")
					}
					if k < len(ops) {
						toks = append(toks, ops[k])
					}
				}
				p := &refParser{toks: toks}
				e := p.parse(1)
				e.typeOf()
				if e.mixedInside(true) {
					continue
				}
				count++
				var on []string
				for _, o := range ops {
					on = append(on, opName(o))
				}
				name := fmt.Sprintf("B_%s_v%d_p%d", strings.Join(on, "_"), variant, paren+1)
				text := toksText(toks)
				expect := "executed"
				forceIll := false
				if paren >= 0 && !isArith(ops[paren]) {
					// "( cmp/logic )" inside a math context may be ungrammatical: either outcome
					// (rejected or evaluated per reference) is accepted only when ill-typed
				}
				if e.class == 0 {
					expect = ""
				}
				src := c01Instance(name, e, text, "", "", forceIll)
				if expect == "" {
					b.WriteString("\n// " + text + "\n" + src)
					fam.Instances = append(fam.Instances, Instance{Func: name, Stratum: fmt.Sprintf("seq%d", len(ops)), Desc: text, Text: text})
				} else {
					add(name, fmt.Sprintf("seq%d", len(ops)), text, src)
					fam.Instances[len(fam.Instances)-1].Text = text
				}
			}
		}
	}

	// (c) literals, negation, locals, metadata
	x64, y64 := mkVar("x", "int64"), mkVar("y", "int64")
	lits := []struct {
		name string
		e    *expr
	}{
		{"big_eq", &expr{op: "==", l: x64, r: mkLit("9007199254740993", "int64(9007199254740993)", 'I')}},
		{"big_lt", &expr{op: "<", l: mkLit("9007199254740992", "int64(9007199254740992)", 'I'), r: x64}},
		{"neg_first", &expr{op: "+", l: mkLit("-5", "int64(-5)", 'I'), r: x64}},
		{"neg_paren", &expr{op: "*", l: x64, r: &expr{op: "()", l: mkLit("-3", "int64(-3)", 'I')}}},
		{"real", &expr{op: "*", l: x64, r: mkLit("1.5", "float64(1.5)", 'F')}},
		{"real_div", &expr{op: "/", l: mkLit("7.0", "float64(7.0)", 'F'), r: x64}},
		{"str_cat", &expr{op: "+", l: mkVar("s", "string"), r: mkLit("\"ab\"", "\"ab\"", 'S')}},
		{"str_lt", &expr{op: "<", l: mkVar("s", "string"), r: mkLit("\"m\"", "\"m\"", 'S')}},
		{"bool_lit", &expr{op: "&&", l: mkVar("p", "bool"), r: mkLit("true", "true", 'B')}},
		{"bool_or_false", &expr{op: "||", l: mkVar("p", "bool"), r: mkLit("false", "false", 'B')}},
		{"not_atom", &expr{op: "&&", l: &expr{op: "!", l: mkVar("p", "bool")}, r: mkVar("q", "bool")}},
		{"not_paren", &expr{op: "!", l: &expr{op: "()", l: &expr{op: "<", l: x64, r: y64}}}},
		{"not_paren_or", &expr{op: "||", l: &expr{op: "!", l: &expr{op: "()", l: &expr{op: "&&", l: mkVar("p", "bool"), r: mkVar("q", "bool")}}}, r: mkVar("t", "bool")}},
		{"not_int", &expr{op: "!", l: x64}},
		{"div_lit_zero", &expr{op: "/", l: x64, r: mkLit("0", "int64(0)", 'I')}},
		{"minint_div", &expr{op: "/", l: x64, r: y64}},
		{"nested_paren", &expr{op: "*", l: &expr{op: "()", l: &expr{op: "-", l: x64, r: &expr{op: "()", l: &expr{op: "+", l: y64, r: mkVar("z", "int64")}}}}, r: mkVar("w", "int32")}},
		{"lead0_add", &expr{op: "+", l: x64, r: mkLit("010", "int64(10)", 'I')}},
		{"lead0_eq", &expr{op: "==", l: x64, r: mkLit("010", "int64(10)", 'I')}},
		{"lead0_div", &expr{op: "/", l: mkLit("0100", "int64(100)", 'I'), r: y64}},
		{"lead0_08", &expr{op: "-", l: x64, r: mkLit("08", "int64(8)", 'I')}},
		{"lead0_neg", &expr{op: "*", l: x64, r: &expr{op: "()", l: mkLit("-010", "int64(-10)", 'I')}}},
		{"lead0_007", &expr{op: "<", l: x64, r: mkLit("007", "int64(7)", 'I')}},
		{"lead0_zero", &expr{op: "+", l: x64, r: mkLit("00", "int64(0)", 'I')}},
		{"lead0_real", &expr{op: "*", l: x64, r: mkLit("010.5", "float64(10.5)", 'F')}},
		// both operands of && and || are evaluated: a fault on the right fails the rule whatever the left is
		{"and_right_div", &expr{op: "&&", l: mkVar("p", "bool"), r: &expr{op: ">", l: &expr{op: "/", l: x64, r: y64}, r: mkLit("1", "int64(1)", 'I')}}},
		{"or_right_div", &expr{op: "||", l: mkVar("p", "bool"), r: &expr{op: "==", l: &expr{op: "/", l: x64, r: y64}, r: mkLit("0", "int64(0)", 'I')}}},
		{"and_or_right_div", &expr{op: "||", l: &expr{op: "()", l: &expr{op: "&&", l: mkVar("p", "bool"), r: &expr{op: ">", l: &expr{op: "/", l: mkLit("1", "int64(1)", 'I'), r: y64}, r: mkLit("0", "int64(0)", 'I')}}}, r: mkVar("q", "bool")}},
		{"and_right_int", &expr{op: "&&", l: mkVar("p", "bool"), r: x64}},
		{"or_right_string", &expr{op: "||", l: mkVar("p", "bool"), r: mkLit("\"x\"", "\"x\"", 'S')}},
		{"exp_neg", &expr{op: "*", l: x64, r: mkLit("5e-1", "float64(5e-1)", 'F')}},
		{"exp_neg2", &expr{op: "+", l: x64, r: mkLit("25e-2", "float64(25e-2)", 'F')}},
		{"exp_neg_cmp", &expr{op: "<", l: mkLit("1e-3", "float64(1e-3)", 'F'), r: x64}},
		{"exp_neg_upper", &expr{op: "-", l: x64, r: mkLit("7E-10", "float64(7e-10)", 'F')}},
		{"exp_pos", &expr{op: "/", l: x64, r: mkLit("2e3", "float64(2e3)", 'F')}},
		{"exp_neg_signed", &expr{op: "*", l: x64, r: &expr{op: "()", l: mkLit("-5e-1", "float64(-5e-1)", 'F')}}},
		{"maxint_lit", &expr{op: "+", l: x64, r: mkLit("9223372036854775807", "int64(9223372036854775807)", 'I')}},
		{"cmp_of_sums", &expr{op: "<=", l: &expr{op: "+", l: x64, r: y64}, r: &expr{op: "*", l: mkVar("z", "int64"), r: mkVar("w", "int64")}}},
	}
	for _, l := range lits {
		name := "C_" + l.name
		text := l.e.text()
		add(name, "literals", text, c01Instance(name, l.e, text, "", "", false))
		fam.Instances[len(fam.Instances)-1].Text = text
	}
	// concrete strings with characters that formatting or quoting could mangle
	for k, pair := range [][2]string{{"100%", " done"}, {"50%", "%"}, {"%d", "%s"}, {"a\\b", "c"}, {"é", "ü"}, {"", "x"}, {"%%", ""}} {
		name := fmt.Sprintf("C_strconcat_%d", k)
		fmt.Fprintf(&b, "\nfunc %s() {\n\tdc := context.NewDataContext()\n\tdc.Add(\"s\", %q)\n\tdc.Add(\"t\", %q)\n\tcompiled, err, res := run(dc, \"rule \\\"r\\\" begin\\n return s + t\\nend\")\n\tvnd.Assert(compiled, \"compiles\")\n\tvnd.Reach(\"executed\")\n\tvnd.Assert(err == nil, \"no error\")\n\tgot, ok := res[\"r\"].(string)\n\tvnd.Assert(ok && got == %q, \"+ concatenates strings verbatim\")\n\tcompiled, err, res = run(dc, \"rule \\\"r\\\" begin\\n return s + t == %s\\nend\")\n\tb2, ok2 := res[\"r\"].(bool)\n\tvnd.Assert(compiled && err == nil && ok2 && b2, \"comparison with the literal concatenation\")\n}\n",
			name, pair[0], pair[1], pair[0]+pair[1], strings.ReplaceAll(fmt.Sprintf("%q", pair[0]+pair[1]), "\"", "\\\""))
		fam.Instances = append(fam.Instances, Instance{Func: name, Stratum: "literals", Desc: fmt.Sprintf("%q + %q", pair[0], pair[1]), Expect: []string{"executed"}})
	}
	// concrete strings that look like numbers: the four ordering operators compare bytes, never values
	for k, pair := range [][2]string{{"10", "9"}, {"100", "20"}, {"+5", "3"}, {"-5", "-10"}, {"07", "7"}, {"1e3", "999"}, {"abc", "abd"}, {" 9", "10"}} {
		name := fmt.Sprintf("C_strorder_%d", k)
		fmt.Fprintf(&b, "\nfunc %s() {\n\tdc := context.NewDataContext()\n\ts, t := %q, %q\n\tdc.Add(\"s\", s)\n\tdc.Add(\"t\", t)\n\tfor _, op := range []string{\"<\", \"<=\", \">\", \">=\", \"==\", \"!=\"} {\n\t\tcompiled, err, res := run(dc, \"rule \\\"r\\\" begin\\n return s \"+op+\" t\\nend\")\n\t\tvnd.Assert(compiled && err == nil, \"string comparison evaluates\")\n\t\tgot, ok := res[\"r\"].(bool)\n\t\twant := false\n\t\tswitch op {\n\t\tcase \"<\":\n\t\t\twant = s < t\n\t\tcase \"<=\":\n\t\t\twant = s <= t\n\t\tcase \">\":\n\t\t\twant = s > t\n\t\tcase \">=\":\n\t\t\twant = s >= t\n\t\tcase \"==\":\n\t\t\twant = s == t\n\t\tcase \"!=\":\n\t\t\twant = s != t\n\t\t}\n\t\tvnd.Assert(ok && got == want, \"strings are ordered byte-wise\")\n\t}\n\tvnd.Reach(\"executed\")\n}\n", name, pair[0], pair[1])
		fam.Instances = append(fam.Instances, Instance{Func: name, Stratum: "literals", Desc: fmt.Sprintf("%q against %q, six comparison operators", pair[0], pair[1]), Expect: []string{"executed"}})
	}
	// rule locals as operands
	{
		e := &expr{op: "-", l: mkVar("x", "int64"), r: mkVar("y", "int16")}
		name := "C_local_operand"
		src := c01Instance(name, e, "t - y", " t = x\n", "", false)
		add(name, "locals", "t = x; return t - y", src)
		e2 := &expr{op: "<", l: mkVar("x", "uint32"), r: mkVar("y", "uint64")}
		name2 := "C_local_cmp"
		add(name2, "locals", "t := x; u = y; return t < u", c01Instance(name2, e2, "t < u", " t := x\n u = y\n", "", false))
	}
	b.WriteString(c01Meta(fam))

	head := "package " + pkg + "\n\nimport (\n\t\"github.com/bilibili/gengine/builder\"\n\t\"github.com/bilibili/gengine/context\"\n\t\"github.com/bilibili/gengine/engine\"\n\t\"github.com/bilibili/gengine/zz_verif/vnd\"\n)\n" + c01Lib
	fam.Files[repoDir+"/zz_verif/"+pkg+"/h.go"] = head + b.String()
	fam.TestFile = repoDir + "/zz_verif/" + pkg + "/zz_replay_test.go"
	fam.TestSrc = testFile(pkg, fam.Instances)
	fam.Bounds["instances"] = len(fam.Instances)
	return fam, nil
}

// c01Meta: @name @id @desc @sal on concrete rule headers.
func c01Meta(fam *Family) string {
	type mc struct {
		id, ruleName, desc, sal string
		wantID                  int64
		wantSal                 int64
	}
	cases := []mc{
		{"dec", "123", "some desc", "10", 123, 10},
		{"neg", "-7", "d", "-5", -7, -5},
		{"padded", "007", "", "0", 7, 0},
		{"alpha", "abc", "x y", "9223372036854775807", 0, 9223372036854775807},
		{"mixed", "12a", "", "-9223372036854775808", 0, -9223372036854775808},
		{"nosal", "42", "dd", "", 42, 0},
		{"int32over", "2147483648", "", "1", 2147483648, 1},
		{"int32under", "-2147483649", "", "1", -2147483649, 1},
		{"uint32over", "4294967296", "", "", 4294967296, 0},
		{"big53", "9007199254740993", "d", "2", 9007199254740993, 2},
		{"maxint64", "9223372036854775807", "", "3", 9223372036854775807, 3},
		{"over64", "9223372036854775808", "", "3", 0, 3},
	}
	var b strings.Builder
	for _, c := range cases {
		name := "D_meta_" + c.id
		hdr := "rule \"" + c.ruleName + "\""
		if c.desc != "" {
			hdr += " \"" + c.desc + "\""
		}
		if c.sal != "" {
			hdr += " salience " + c.sal
		}
		for _, at := range []struct{ tok, goT, want string }{
			{"@name", "string", fmt.Sprintf("%q", c.ruleName)},
			{"@id", "int64", fmt.Sprintf("int64(%d)", c.wantID)},
			{"@desc", "string", fmt.Sprintf("%q", c.desc)},
			{"@sal", "int64", fmt.Sprintf("int64(%d)", c.wantSal)},
		} {
			fn := name + "_" + strings.TrimPrefix(at.tok, "@")
			text := hdr + " begin\n return " + at.tok + "\nend"
			fmt.Fprintf(&b, "\nfunc %s() {\n\tdc := context.NewDataContext()\n\tcompiled, err, res := run(dc, %q)\n\tvnd.Assert(compiled, \"compiles\")\n\tvnd.Reach(\"executed\")\n\tvnd.Assert(err == nil, \"no error\")\n\tgot, ok := res[%q].(%s)\n\tvnd.Assert(ok, \"result type\")\n\tvnd.Assert(got == %s, \"metadata value\")\n}\n",
				fn, text, c.ruleName, at.goT, at.want)
			fam.Instances = append(fam.Instances, Instance{Func: fn, Stratum: "metadata", Desc: hdr + " return " + at.tok, Text: text, Expect: []string{"executed"}})
		}
	}
	// several rules in one text: every rule sees its own metadata (a rule without
	// description / salience after one that has them)
	multi := "rule \"10\" \"first\" salience 10 begin\n return AT\nend\nrule \"second\" begin\n return AT\nend\nrule \"3\" \"third\" salience -4 begin\n return AT\nend\nrule \"4x\" salience 8 begin\n return AT\nend\nrule \"5\" \"fifth\" begin\n return AT\nend\n"
	want := map[string][]string{
		"@name": {"\"10\"", "\"second\"", "\"3\"", "\"4x\"", "\"5\""},
		"@id":   {"int64(10)", "int64(0)", "int64(3)", "int64(0)", "int64(5)"},
		"@desc": {"\"first\"", "\"\"", "\"third\"", "\"\"", "\"fifth\""},
		"@sal":  {"int64(10)", "int64(0)", "int64(-4)", "int64(8)", "int64(0)"},
	}
	goT := map[string]string{"@name": "string", "@id": "int64", "@desc": "string", "@sal": "int64"}
	rn := []string{"10", "second", "3", "4x", "5"}
	for _, at := range []string{"@name", "@id", "@desc", "@sal"} {
		fn := "D_meta_multi_" + strings.TrimPrefix(at, "@")
		text := strings.ReplaceAll(multi, "AT", at)
		fmt.Fprintf(&b, "\nfunc %s() {\n\tdc := context.NewDataContext()\n\tcompiled, err, res := run(dc, %q)\n\tvnd.Assert(compiled, \"compiles\")\n\tvnd.Reach(\"executed\")\n\tvnd.Assert(err == nil, \"no error\")\n", fn, text)
		for k, r := range rn {
			fmt.Fprintf(&b, "\t{\n\t\tgot, ok := res[%q].(%s)\n\t\tvnd.Assert(ok, \"result type\")\n\t\tvnd.Assert(got == %s, \"each rule sees its own metadata\")\n\t}\n", r, goT[at], want[at][k])
		}
		b.WriteString("}\n")
		fam.Instances = append(fam.Instances, Instance{Func: fn, Stratum: "metadata", Desc: "five rules each returning " + at, Text: text, Expect: []string{"executed"}})
	}
	return b.String()
}
