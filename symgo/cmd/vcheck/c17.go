package main

import (
	"fmt"
	"strings"

	"symgo/interp"
)

func init() {
	generators["C17"] = genC17
	generators["C06"] = genC06
}

type poolCall struct {
	name string
	call string // uses gp, data (map[string]interface{}), names []string, stag *Stag
	n    int
}

// poolCalls lists every execute entry point of GenginePool.
func poolCalls() []poolCall {
	return []poolCall{
		{"ExecuteRulesWithSpecifiedEM", "gp.ExecuteRulesWithSpecifiedEM(\"req\", data[\"req\"], \"resp\", data[\"resp\"])", 2},
		{"ExecuteRulesWithMultiInputWithSpecifiedEM", "gp.ExecuteRulesWithMultiInputWithSpecifiedEM(data)", 2},
		{"ExecuteSelectedWithSpecifiedEM", "gp.ExecuteSelectedWithSpecifiedEM(data, names)", 2},
		{"Execute", "gp.Execute(data, true)", 2},
		{"ExecuteWithStopTagDirect", "gp.ExecuteWithStopTagDirect(data, true, stag)", 2},
		{"ExecuteConcurrent", "gp.ExecuteConcurrent(data)", 2},
		{"ExecuteMixModel", "gp.ExecuteMixModel(data)", 2},
		{"ExecuteMixModelWithStopTagDirect", "gp.ExecuteMixModelWithStopTagDirect(data, stag)", 2},
		{"ExecuteSelectedRules", "gp.ExecuteSelectedRules(data, names)", 2},
		{"ExecuteSelectedRulesWithControl", "gp.ExecuteSelectedRulesWithControl(data, true, names)", 2},
		{"ExecuteSelectedRulesWithControlAsGivenSortedName", "gp.ExecuteSelectedRulesWithControlAsGivenSortedName(data, true, names)", 2},
		{"ExecuteSelectedRulesWithControlAndStopTag", "gp.ExecuteSelectedRulesWithControlAndStopTag(data, true, stag, names)", 2},
		{"ExecuteSelectedRulesWithControlAndStopTagAsGivenSortedName", "gp.ExecuteSelectedRulesWithControlAndStopTagAsGivenSortedName(data, true, stag, names)", 2},
		{"ExecuteSelectedRulesConcurrent", "gp.ExecuteSelectedRulesConcurrent(data, names)", 2},
		{"ExecuteSelectedRulesMixModel", "gp.ExecuteSelectedRulesMixModel(data, names)", 2},
		{"ExecuteInverseMixModel", "gp.ExecuteInverseMixModel(data)", 2},
		{"ExecuteSelectedRulesInverseMixModel", "gp.ExecuteSelectedRulesInverseMixModel(data, names)", 2},
		{"ExecuteNSortMConcurrent", "gp.ExecuteNSortMConcurrent(1, 1, true, data)", 2},
		{"ExecuteNConcurrentMSort", "gp.ExecuteNConcurrentMSort(1, 1, true, data)", 2},
		{"ExecuteNConcurrentMConcurrent", "gp.ExecuteNConcurrentMConcurrent(1, 1, true, data)", 2},
		{"ExecuteSelectedNSortMConcurrent", "gp.ExecuteSelectedNSortMConcurrent(1, 1, true, names, data)", 2},
		{"ExecuteSelectedNConcurrentMSort", "gp.ExecuteSelectedNConcurrentMSort(1, 1, true, names, data)", 2},
		{"ExecuteSelectedNConcurrentMConcurrent", "gp.ExecuteSelectedNConcurrentMConcurrent(1, 1, true, names, data)", 2},
		{"ExecuteDAGModel", "gp.ExecuteDAGModel([][]string{{\"a\"}, {\"b\"}}, data)", 2},
	}
}

const c17Lib = `
// the request rules: a returns req, b fails when the request says so and
// otherwise returns the response object's field
const zzReqText = "rule \"a\" salience 9\nbegin\n ev(\"a.s\")\n x = req\n ev(\"a.e\")\n if quiet {\n  x = 0\n } else {\n  return x\n }\nend\nrule \"b\" salience 5\nbegin\n ev(\"b.s\")\n if fail {\n  y = one / zero\n }\n ev(\"b.e\")\n if quiet {\n  y = 0\n } else {\n  return resp\n }\nend\n"

func zzReqPool(min, max int64) *GenginePool {
	apis := zzApis()
	apis["one"] = int64(1)
	apis["zero"] = int64(0)
	apis["fail"] = false
	apis["quiet"] = false
	gp, e := NewGenginePool(min, max, SortModel, zzReqText, apis)
	zzMust(e, "pool construction")
	return gp
}

func zzAllWrappers(gp *GenginePool) []*gengineWrapper {
	var all []*gengineWrapper
	all = append(all, zzFree(gp)...)
	all = append(all, zzAdd(gp)...)
	return all
}

func zzContains(ws []*gengineWrapper, w *gengineWrapper) int {
	n := 0
	for _, x := range ws {
		if x == w {
			n++
		}
	}
	return n
}

// zzPartition: every instance is in exactly one place (its own list or held).
func zzPartition(gp *GenginePool, all, held []*gengineWrapper) {
	for _, w := range all {
		inFree, inAdd, inHeld := zzContains(zzFree(gp), w), zzContains(zzAdd(gp), w), zzContains(held, w)
		vnd.Assert(inFree+inAdd+inHeld == 1, "every instance is in exactly one place: never lost, never duplicated")
		if w.addition {
			vnd.Assert(inFree == 0, "an additional instance never sits in the free list")
		} else {
			vnd.Assert(inAdd == 0, "an initial instance never sits in the addition list")
		}
	}
	vnd.Assert(len(zzFree(gp))+len(zzAdd(gp))+len(held) == len(all), "instances in lists plus in flight = pool size")
}

func zzLocksFree(gp *GenginePool) {
	ok := gp.getEngineLock.TryLock()
	vnd.Assert(ok, "the get lock is released")
	if ok {
		gp.getEngineLock.Unlock()
	}
	ok = gp.runningLock.TryLock()
	vnd.Assert(ok, "the free-list lock is released")
	if ok {
		gp.runningLock.Unlock()
	}
	ok = gp.additionLock.TryLock()
	vnd.Assert(ok, "the addition-list lock is released")
	if ok {
		gp.additionLock.Unlock()
	}
}

// zzArbitrary distributes the instances arbitrarily over {own list, held} and
// permutes the lists.
func zzArbitrary(gp *GenginePool) (all, held []*gengineWrapper) {
	all = zzAllWrappers(gp)
	var free, add []*gengineWrapper
	for k, w := range all {
		if vnd.Choice("where"+strconv.Itoa(k), 2) == 1 {
			held = append(held, w)
		} else if w.addition {
			add = append(add, w)
		} else {
			free = append(free, w)
		}
	}
	rot := func(ws []*gengineWrapper, name string) []*gengineWrapper {
		if len(ws) < 2 {
			return ws
		}
		r := vnd.Choice(name, len(ws))
		return append(append([]*gengineWrapper{}, ws[r:]...), ws[:r]...)
	}
	gp.freeGengines = rot(free, "rotfree")
	gp.additionGengines = rot(add, "rotadd")
	return all, held
}
`

func genC17(tier string, seed int64) (*Family, error) {
	fam := &Family{
		Prop: "C17", Files: map[string]string{},
		Bounds:    map[string]interface{}{"pool_sizes": "(min,max) in {(1,2),(1,3),(2,3)} (thorough adds (2,4),(3,4))", "pre_state": "arbitrary distribution of the instances over {own list, held by a request}, lists rotated arbitrarily", "request_outcomes": "normal, rule error (symbolic flag), panic out of the pool method"},
		Cfg:       interp.Config{MaxSteps: 3_000_000, StepsAreHang: true, TrackFields: []string{"engine.GenginePool.freeGengines", "engine.GenginePool.additionGengines"}},
		Functions: []string{"engine.GenginePool).getGengine", "engine.GenginePool).putGengineLocked", "engine.GenginePool).prepareWithMultiInput", "engine.GenginePool).prepare"},
	}
	fam.Assumptions = []string{
		"inductive step: from an arbitrary valid distribution of the instances (partition invariant), one getGengine call either hands out an instance that was in a list and removes it, or - when both lists are empty - loops back with state and locks unchanged (it then exhausts the step budget: 'waits rather than fails'); one put appends exactly the given instance to its own list; the invariant is preserved, so at most max requests are in flight after any history",
		"release: every pool entry point, on normal return, rule error and a panic leaving the pool method, hands its instance back exactly once",
		"mutual atomicity of the critical sections is the business of the race query (C19), which runs here on the list fields for two getters and two putters",
	}
	fam.Outside = []string{"fairness among waiters", "pools larger than the bound"}
	sizes := [][2]int{{1, 2}, {1, 3}, {2, 3}}
	if tier == "thorough" {
		sizes = append(sizes, [2]int{2, 4}, [2]int{3, 4})
	}
	var b strings.Builder
	b.WriteString(c17Lib)
	for _, sz := range sizes {
		name := fmt.Sprintf("G_get_%d_%d", sz[0], sz[1])
		fmt.Fprintf(&b, `
// one getGengine step from an arbitrary valid state of a (%d,%d) pool
func %s() {
	gp := zzReqPool(%d, %d)
	all, held := zzArbitrary(gp)
	zzPartition(gp, all, held)
	nfree, nadd := len(zzFree(gp)), len(zzAdd(gp))
	var first *gengineWrapper
	if nfree > 0 {
		first = zzFree(gp)[0]
	} else if nadd > 0 {
		first = zzAdd(gp)[0]
	}
	vnd.Reach("executed")
	if nfree+nadd == 0 {
		// all instances busy: the request must wait, not fail
		vnd.ExpectEnd("steps")
		gw, err := gp.getGengine()
		vnd.Assert(false, "getGengine returned although every instance is busy")
		_, _ = gw, err
		return
	}
	gw, err := gp.getGengine()
	vnd.Assert(err == nil && gw != nil, "a request finding a free instance gets one")
	vnd.Assert(zzContains(held, gw) == 0, "an instance in flight is never handed to a second request")
	vnd.Assert(gw == first, "initial instances are preferred, lists are served from the front")
	zzPartition(gp, all, append(held, gw))
	zzLocksFree(gp)
}
`, sz[0], sz[1], name, sz[0], sz[1])
		fam.Instances = append(fam.Instances, Instance{Func: name, Stratum: "get", Desc: fmt.Sprintf("getGengine step, pool (%d,%d)", sz[0], sz[1]), Expect: []string{"executed"}})
		name = fmt.Sprintf("P_put_%d_%d", sz[0], sz[1])
		fmt.Fprintf(&b, `
// one put step from an arbitrary valid state of a (%d,%d) pool
func %s() {
	gp := zzReqPool(%d, %d)
	all, held := zzArbitrary(gp)
	vnd.Reach("executed")
	if len(held) == 0 {
		return
	}
	k := vnd.Choice("which", len(held))
	gw := held[k]
	rest := append(append([]*gengineWrapper{}, held[:k]...), held[k+1:]...)
	gp.putGengineLocked(gw)
	vnd.Quiesce()
	zzPartition(gp, all, rest)
	if gw.addition {
		vnd.Assert(zzAdd(gp)[len(zzAdd(gp))-1] == gw, "an additional instance goes back to the addition list")
	} else {
		vnd.Assert(zzFree(gp)[len(zzFree(gp))-1] == gw, "an initial instance goes back to the free list")
	}
	zzLocksFree(gp)
}
`, sz[0], sz[1], name, sz[0], sz[1])
		fam.Instances = append(fam.Instances, Instance{Func: name, Stratum: "put", Desc: fmt.Sprintf("put step, pool (%d,%d)", sz[0], sz[1]), Expect: []string{"executed"}})
	}
	// release on every entry point
	for _, pc := range poolCalls() {
		name := "R_" + pc.name
		fmt.Fprintf(&b, `
// %s hands its instance back on normal return, rule error and panic
func %s() {
	gp := zzReqPool(1, 2)
	all := zzAllWrappers(gp)
	names := []string{"a", "b"}
	stag := &Stag{}
	_, _ = names, stag
	for round := 0; round < 3; round++ {
		fail := vnd.Bool("fail")
		pol := vnd.Bool("pol")
		_ = pol
		data := map[string]interface{}{"req": vnd.Int64("req"), "resp": int64(5), "fail": fail}
		err, res := %s
		_ = res
		vnd.Quiesce()
		if vnd.Count("b.s") > 0 && %v {
			vnd.Assert(vnd.Implies(fail, err != nil), "a failing rule surfaces as an error")
		}
		_ = err
		zzPartition(gp, all, nil)
		zzLocksFree(gp)
	}
	vnd.Reach("executed")
}
`, pc.name, name, strings.ReplaceAll(strings.ReplaceAll(pc.call, ", true, ", ", pol, "), "data, true)", "data, pol)"), pc.name != "ExecuteRulesWithSpecifiedEM")
		fam.Instances = append(fam.Instances, Instance{Func: name, Stratum: "release", Desc: pc.name + " hands its instance back", Expect: []string{"executed"}})
	}
	b.WriteString(`
// a panic leaving the pool method (nil *Stag: the engine dereferences it after the first rule) still releases the instance
func R_panic_out_of_pool_method() {
	gp := zzReqPool(1, 2)
	all := zzAllWrappers(gp)
	for round := 0; round < 3; round++ {
		func() {
			defer func() {
				r := recover()
				vnd.Assert(r != nil, "the nil stop tag makes the call panic (host misuse)")
			}()
			gp.ExecuteWithStopTagDirect(map[string]interface{}{"req": int64(1), "resp": int64(2), "fail": false}, true, nil)
		}()
		vnd.Quiesce()
		zzPartition(gp, all, nil)
		zzLocksFree(gp)
	}
	err, _ := gp.Execute(map[string]interface{}{"req": int64(1), "resp": int64(2), "fail": false}, true)
	vnd.Assert(err == nil, "the pool still serves requests")
	vnd.Reach("executed")
}

// two requests at once: different instances, both handed back; with max requests in flight a further one waits
func C_two_in_flight() {
	gp := zzReqPool(1, 2)
	all := zzAllWrappers(gp)
	g1, e1 := gp.getGengine()
	g2, e2 := gp.getGengine()
	vnd.Assert(e1 == nil && e2 == nil && g1 != nil && g2 != nil, "two requests are served by a pool of two")
	vnd.Assert(g1 != g2, "never the same instance for two requests in flight")
	zzPartition(gp, all, []*gengineWrapper{g1, g2})
	gp.putGengineLocked(g2)
	gp.putGengineLocked(g1)
	vnd.Quiesce()
	zzPartition(gp, all, nil)
	g3, _ := gp.getGengine()
	g4, _ := gp.getGengine()
	vnd.Assert(g3 != g4 && g3 != nil && g4 != nil, "after any number of requests the pool still serves max requests at once")
	vnd.Reach("executed")
}
`)
	// requests whose data holds a nil value or an empty key: whatever the call answers, the instance comes back
	for _, pc := range poolCalls() {
		if strings.Contains(pc.call, "data[\"req\"]") {
			continue // the request/response entry point takes no data map
		}
		name := "N_" + pc.name
		fmt.Fprintf(&b, `
// %s with a nil value and an empty key in the data map
func %s() {
	gp := zzReqPool(1, 2)
	all := zzAllWrappers(gp)
	names := []string{"a", "b"}
	stag := &Stag{}
	_, _ = names, stag
	for round := 0; round < 3; round++ {
		data := map[string]interface{}{"req": int64(1), "resp": int64(5), "fail": false}
		if round == 0 {
			data["nothing"] = nil
		} else if round == 1 {
			data[""] = int64(3)
		}
		_, _ = %s
		vnd.Quiesce()
		zzPartition(gp, all, nil)
		zzLocksFree(gp)
	}
	g1, _ := gp.getGengine()
	g2, _ := gp.getGengine()
	vnd.Assert(g1 != nil && g2 != nil && g1 != g2, "after any number of requests the pool still serves max requests at once")
	vnd.Reach("executed")
}
`, pc.name, name, pc.call)
		fam.Instances = append(fam.Instances, Instance{Func: name, Stratum: "release:odd-input", Desc: pc.name + " with a nil value / empty key in its data", Expect: []string{"executed"}})
	}
	b.WriteString(`
// every wrapper of a pool has an engine of its own (also after every kind of update)
func I_distinct_engines() {
	for _, sz := range [][2]int64{{1, 2}, {1, 3}, {2, 4}, {3, 5}} {
		gp := zzReqPool(sz[0], sz[1])
		for round := 0; round < 4; round++ {
			all := zzAllWrappers(gp)
			vnd.Assert(int64(len(all)) == sz[1], "the pool has max instances")
			vnd.Assert(int64(len(gp.rbSlice)) == sz[1], "the pool has max working sets")
			for i := range gp.rbSlice {
				vnd.Assert(gp.rbSlice[i] != gp.ruleBuilder && gp.rbSlice[i].Dc != gp.ruleBuilder.Dc, "no instance works on the master's builder or data context")
				for j := i + 1; j < len(gp.rbSlice); j++ {
					vnd.Assert(gp.rbSlice[i] != gp.rbSlice[j] && gp.rbSlice[i].Dc != gp.rbSlice[j].Dc, "no two instances share a builder or a data context")
				}
			}
			for i := range all {
				vnd.Assert(all[i].gengine != nil, "every instance has an engine")
				for j := i + 1; j < len(all); j++ {
					vnd.Assert(all[i] != all[j] && all[i].gengine != all[j].gengine, "no two instances share an engine")
				}
			}
			if round == 0 {
				zzMust(gp.UpdatePooledRules(zzReqText), "full update")
			} else if round == 1 {
				zzMust(gp.UpdatePooledRulesIncremental("rule \"extra\" salience 1 begin\n x = 1\nend\n"), "incremental update")
			} else {
				zzMust(gp.RemoveRules([]string{"b"}), "removal")
			}
		}
	}
	vnd.Reach("executed")
}
`)
	fam.Instances = append(fam.Instances, Instance{Func: "I_distinct_engines", Stratum: "construction", Desc: "pairwise distinct engines per wrapper, pools (1,2) (1,3) (2,4) (3,5)", Expect: []string{"executed"}})
	// a request that found every instance busy proceeds as soon as any instance is handed back
	for _, back := range []string{"initial", "additional"} {
		name := "W_waiter_" + back
		fmt.Fprintf(&b, `
// all instances busy, one request waiting, then the %s instance is handed back
func %s() {
	gp := zzReqPool(1, 2)
	all := zzAllWrappers(gp)
	g1, _ := gp.getGengine()
	g2, _ := gp.getGengine()
	vnd.Assert(g1 != nil && g2 != nil && g1 != g2 && !g1.addition && g2.addition, "both instances are out")
	var got *gengineWrapper
	var wg sync.WaitGroup
	wg.Add(1)
	go func() {
		defer wg.Done()
		got, _ = gp.getGengine()
		vnd.Event("served")
	}()
	vnd.Nap() // the third request is now polling
	back, other := g1, g2
	if %v {
		back, other = g2, g1
	}
	gp.putGengineLocked(back)
	wg.Wait()
	vnd.Assert(got == back, "the waiting request is served with the instance that came back")
	zzPartition(gp, all, []*gengineWrapper{got, other})
	gp.putGengineLocked(got)
	gp.putGengineLocked(other)
	vnd.Quiesce()
	zzPartition(gp, all, nil)
	zzLocksFree(gp)
	vnd.Reach("executed")
}
`, back, name, back == "additional")
		fam.Instances = append(fam.Instances, Instance{Func: name, Stratum: "waiter", Desc: "a waiting request is served when the " + back + " instance comes back", Expect: []string{"executed"}, Nondet: true})
	}
	// capacity: while a request of any entry point is inside a rule, a second request is served by the other instance
	for _, pc := range poolCalls() {
		if pc.name == "ExecuteRulesWithSpecifiedEM" {
			continue // carries a request and a response object only: no way to hand it the blocking function
		}
		name := "K_second_request_while_" + pc.name
		fmt.Fprintf(&b, `
// a request through %s is held inside rule a; a second request must run to its end meanwhile
func %s() {
	gp := zzReqPool(1, 2)
	var gate sync.Mutex
	gate.Lock()
	names := []string{"a", "b"}
	stag := &Stag{}
	_, _ = names, stag
	done := make([]bool, 1)
	var wg sync.WaitGroup
	wg.Add(1)
	go func() {
		defer wg.Done()
		data := map[string]interface{}{"req": int64(1), "resp": int64(1), "ev": func(s string) {
			if s == "a.s" {
				gate.Lock() // held until the host lets go
				gate.Unlock()
			}
		}}
		_, _ = %s
		done[0] = true
	}()
	vnd.Quiesce() // request one is now inside rule a, holding an instance
	vnd.Assert(!done[0], "request one is in flight")
	r2 := vnd.Int64("r2")
	_, res2 := gp.Execute(map[string]interface{}{"req": r2, "resp": int64(2)}, true)
	vnd.Event("second served")
	x2, ok2 := res2["a"].(int64)
	vnd.Assert(ok2 && x2 == r2, "with an instance idle the second request runs to its end while the first is in flight")
	vnd.Assert(!done[0], "request one is still in flight")
	gate.Unlock()
	wg.Wait()
	vnd.Quiesce()
	zzLocksFree(gp)
	vnd.Reach("executed")
}
`, pc.name, name, pc.call)
		fam.Instances = append(fam.Instances, Instance{Func: name, Stratum: "capacity", Desc: "a second request is served while one through " + pc.name + " is held inside a rule", Expect: []string{"executed"}})
	}
	fam.Instances = append(fam.Instances, Instance{Func: "R_panic_out_of_pool_method", Stratum: "release", Desc: "panic out of a pool method releases the instance", Expect: []string{"executed"}},
		Instance{Func: "C_two_in_flight", Stratum: "capacity", Desc: "two requests in flight, hand-back, again", Expect: []string{"executed"}})
	finishPoolFamily(fam, "C17", b.String())
	for p, src := range fam.Files {
		if strings.HasSuffix(p, "zz_vh_c17.go") {
			fam.Files[p] = strings.Replace(src, "import (\n\t\"strconv\"", "import (\n\t\"strconv\"\n\t\"sync\"", 1)
		}
	}
	return fam, nil
}

func genC06(tier string, seed int64) (*Family, error) {
	fam := &Family{
		Prop: "C06", Files: map[string]string{},
		Bounds:    map[string]interface{}{"pool": "(1,2), (2,3) and (1,3)", "requests": "<= 3 per scenario, <= 2 keys each, symbolic values", "overlap": "a second request runs while the first is blocked inside a rule"},
		Cfg:       interp.Config{MaxSteps: 6_000_000, TrackFields: []string{"engine.Gengine.returnResult", "context.DataContext.base"}, TrackAllocs: []string{"*"}},
		Functions: []string{"engine.GenginePool).prepareWithMultiInput", "engine.GenginePool).prepare", "engine.gengineWrapper).clearInjected", "engine.GenginePool).getGengine", "engine.GenginePool).putGengineLocked", "DataContext).Del"},
	}
	fam.Assumptions = []string{
		"decomposition (the conjunction implying the property is a pen-and-paper step): L1 exclusive ownership of an instance (C17's inductive step), L2 pairwise distinct data contexts per instance, L3 clean-up of the injected keys on every entry point and outcome, L4 the returned map is allocated by this call, holds only this request's values, is complete at return (join query) and is not touched by later calls",
		"request keys are distinct from the api names given at pool construction (a request overriding an api name is host misuse)",
		"overlap is forced by a rule that blocks on a host mutex while a second request runs; the race query runs on the result map and the data context maps",
	}
	fam.Outside = []string{"more than 3 overlapping requests", "requests whose keys collide with api names"}
	var b strings.Builder
	b.WriteString(c17Lib)
	b.WriteString(`
// L2: every instance has its own data context
func L2_private_contexts() {
	for _, sz := range [][2]int64{{1, 2}, {2, 3}} {
		gp := zzReqPool(sz[0], sz[1])
		n := int(sz[1])
		for i := 0; i < n; i++ {
			key := "only" + strconv.Itoa(i)
			gp.rbSlice[i].Dc.Add(key, int64(i))
			for j := 0; j < n; j++ {
				_, e := gp.rbSlice[j].Dc.Get(key)
				vnd.Assert((e == nil) == (i == j), "data injected into one instance's context is invisible in every other")
			}
			vnd.Assert(gp.rbSlice[i].Dc != gp.ruleBuilder.Dc, "instances do not share the master's context")
		}
	}
	// as many requests in flight as the pool has instances: each one finds its own data, on a context of its own
	for _, sz := range [][2]int64{{1, 2}, {2, 3}, {2, 4}, {3, 5}} {
		gp := zzReqPool(sz[0], sz[1])
		n := int(sz[1])
		var held []*gengineWrapper
		for i := 0; i < n; i++ {
			w, e := gp.prepareWithMultiInput(map[string]interface{}{"req": int64(1000 + i), "resp": int64(i), "fail": false, "quiet": false})
			zzMust(e, "request")
			held = append(held, w)
		}
		for i := 0; i < n; i++ {
			for j := i + 1; j < n; j++ {
				vnd.Assert(held[i].rulebuilder.Dc != held[j].rulebuilder.Dc, "requests in flight at the same time work on distinct data contexts")
				vnd.Assert(held[i].gengine != held[j].gengine, "requests in flight at the same time work on distinct engines")
			}
			v, e := held[i].rulebuilder.Dc.Get("req")
			vnd.Assert(e == nil, "a request in flight finds its own data")
			if e == nil {
				x, ok := v.Interface().(int64)
				vnd.Assert(ok && x == int64(1000+i), "a request in flight reads only its own data")
			}
		}
		for _, w := range held {
			w.clearInjected("req", "resp", "fail", "quiet")
			gp.putGengineLocked(w)
		}
	}
	vnd.Reach("executed")
}
`)
	fam.Instances = append(fam.Instances, Instance{Func: "L2_private_contexts", Stratum: "L2", Desc: "pairwise distinct data contexts", Expect: []string{"executed"}})
	for _, pc := range poolCalls() {
		name := "L3L4_" + pc.name
		fmt.Fprintf(&b, `
// %s: clean-up, fresh and finished result map
func %s() {
	gp := zzReqPool(1, 2)
	names := []string{"a", "b"}
	stag := &Stag{}
	_, _ = names, stag
	var prev map[string]interface{}
	var prevReq int64
	prevLen := 0
	for round := 0; round < 3; round++ {
		req, fail := vnd.Int64("req"), vnd.Bool("fail")
		// the middle request returns nothing: its (empty) result map must stay empty afterwards
		data := map[string]interface{}{"req": req, "resp": int64(100 + round), "fail": fail, "quiet": round == 1}
		err, res := %s
		vnd.Event("ret")
		vnd.RequireJoined("ret")
		vnd.NoRaces("engine.Gengine.returnResult")
		vnd.StopIfViolated()
		_ = err
		// L4: only this request's values
		if v, has := res["a"]; has {
			x, ok := v.(int64)
			vnd.Assert(ok && x == req, "the result holds the value computed from this request")
		}
		if v, has := res["b"]; has {
			x, ok := v.(int64)
			vnd.Assert(ok && x == int64(100+round), "the result holds the value computed from this request")
		}
		vnd.Assert(len(res) <= 2, "nothing foreign in the result")
		if round == 1 && %v {
			vnd.Assert(len(res) == 0, "a request whose rules return nothing gets an empty result")
		}
		if prev != nil {
			// the map handed to the previous caller is never modified afterwards
			vnd.Assert(len(prev) == prevLen, "a returned result map is not modified by later requests")
			if v, has := prev["a"]; has {
				x, _ := v.(int64)
				vnd.Assert(x == prevReq, "a returned result map is not modified by later requests")
			}
		}
		prev, prevReq, prevLen = res, req, len(res)
		vnd.Quiesce()
		// L3: nothing of the request stays behind, the apis stay
		for i := range gp.rbSlice {
			for _, k := range []string{"req", "resp", "fail", "quiet"} {
				_, e := gp.rbSlice[i].Dc.Get(k)
				if k == "fail" || k == "quiet" {
					continue // also api names of this pool (see assumptions)
				}
				vnd.Assert(e != nil, "once the call has returned its data is no longer visible on any instance")
			}
			_, e := gp.rbSlice[i].Dc.Get("ev")
			vnd.Assert(e == nil, "the pool's apis stay injected")
		}
	}
	vnd.Reach("executed")
}
`, pc.name, name, pc.call, pc.name != "ExecuteRulesWithSpecifiedEM")
		fam.Instances = append(fam.Instances, Instance{Func: name, Stratum: "L3L4", Desc: pc.name + ": clean-up and fresh result", Expect: []string{"executed"}})
	}
	// L2 is an invariant of the management operations too
	for _, op := range []struct{ id, code string }{
		{"remove", "zzMust(gp.RemoveRules([]string{\"b\"}), \"removal\")"},
		{"remove_absent", "_ = gp.RemoveRules([]string{\"zz\"})"},
		{"full", "zzMust(gp.UpdatePooledRules(zzReqText), \"full update\")"},
		{"incremental", "zzMust(gp.UpdatePooledRulesIncremental(\"rule \\\"c\\\" salience 1 begin\\n x = 1\\nend\\n\"), \"incremental update\")"},
		{"clear_full", "gp.ClearPoolRules()\n\t\tzzMust(gp.UpdatePooledRules(zzReqText), \"full update\")"},
		{"clear_incremental", "gp.ClearPoolRules()\n\t\tzzMust(gp.UpdatePooledRulesIncremental(zzReqText), \"incremental update\")"},
		{"setmodel", "zzMust(gp.SetExecModel(ConcurrentModel), \"model change\")"},
	} {
		name := "L2_after_" + op.id
		fmt.Fprintf(&b, `
// L2 after %s; then two overlapping requests read only their own data
func %s() {
	for _, sz := range [][2]int64{{1, 2}, {2, 3}} {
		gp := zzReqPool(sz[0], sz[1])
		%s
		n := int(sz[1])
		for i := 0; i < n; i++ {
			key := "only" + strconv.Itoa(i)
			gp.rbSlice[i].Dc.Add(key, int64(i))
			for j := 0; j < n; j++ {
				_, e := gp.rbSlice[j].Dc.Get(key)
				vnd.Assert((e == nil) == (i == j), "data injected into one instance's context is invisible in every other")
			}
			vnd.Assert(gp.rbSlice[i].Dc != gp.ruleBuilder.Dc, "instances do not share the master's context")
			gp.rbSlice[i].Dc.Del(key)
		}
		// a request held on one instance, a complete one on another
		r1, r2 := vnd.Int64("r1"), vnd.Int64("r2")
		held, e := gp.prepareWithMultiInput(map[string]interface{}{"req": r1, "resp": int64(1), "fail": false, "quiet": false})
		zzMust(e, "first request")
		_, res2 := gp.ExecuteSelectedRules(map[string]interface{}{"req": r2, "resp": int64(2), "fail": false, "quiet": false}, []string{"a"})
		vnd.Quiesce()
		x2, ok2 := res2["a"].(int64)
		vnd.Assert(ok2 && x2 == r2, "the overlapping request reads only its own data")
		v, e1 := held.rulebuilder.Dc.Get("req")
		vnd.Assert(e1 == nil, "a request overlapped by another one still finds its own data")
		if e1 == nil {
			x1, ok1 := v.Interface().(int64)
			vnd.Assert(ok1 && x1 == r1, "a request overlapped by another one still reads only its own data")
		}
		held.clearInjected("req", "resp", "fail", "quiet")
		gp.putGengineLocked(held)
	}
	vnd.Reach("executed")
}
`, op.id, name, op.code)
		fam.Instances = append(fam.Instances, Instance{Func: name, Stratum: "L2", Desc: "pairwise distinct data contexts after " + op.id, Expect: []string{"executed"}})
	}
	// L3 for partial injections through the request/response entry point
	for k, args := range []string{`"", nil, "resp", int64(7)`, `"req", nil, "resp", int64(7)`, `"", int64(3), "resp", int64(7)`, `"req", req, "", nil`, `"req", req, "resp", nil`, `"req", req, "", int64(7)`, `"", nil, "", nil`} {
		name := fmt.Sprintf("L3_partial_%d", k)
		fmt.Fprintf(&b, `
// ExecuteRulesWithSpecifiedEM(%s): whatever was injected is gone afterwards, on every instance
func %s() {
	gp := zzReqPool(1, 2)
	req := vnd.Int64("req")
	_ = req
	for which := 0; which < 2; which++ {
		var held *gengineWrapper
		if which == 1 {
			held, _ = gp.getGengine()
		}
		_, _ = gp.ExecuteRulesWithSpecifiedEM(%s)
		if held != nil {
			gp.putGengineLocked(held)
		}
		vnd.Quiesce()
		for i := range gp.rbSlice {
			for _, k := range []string{"req", "resp"} {
				_, e := gp.rbSlice[i].Dc.Get(k)
				vnd.Assert(e != nil, "once the call has returned its data is no longer visible on any instance")
			}
			_, e := gp.rbSlice[i].Dc.Get("ev")
			vnd.Assert(e == nil, "the pool's apis stay injected")
		}
	}
	vnd.Reach("executed")
}
`, strings.ReplaceAll(args, `"`, `'`), name, args)
		fam.Instances = append(fam.Instances, Instance{Func: name, Stratum: "L3", Desc: "clean-up after ExecuteRulesWithSpecifiedEM(" + args + ")", Expect: []string{"executed"}})
	}
	b.WriteString(`
// a request whose data holds, besides real entries, entries the pool tolerates but does not inject (nil value, empty
// key): every real entry is gone afterwards (the tolerated
// entries come first in the interpreter's iteration order; natively the order is random)
func L3_tolerated_entries() {
	for _, call := range []string{"Execute", "ExecuteSelectedRules", "ExecuteConcurrent"} {
		gp := zzReqPool(1, 2)
		req := vnd.Int64("req")
		data := map[string]interface{}{"nothing": nil, "req": req, "": int64(5), "resp": int64(7)}
		switch call {
		case "Execute":
			_, _ = gp.Execute(data, true)
		case "ExecuteConcurrent":
			_, _ = gp.ExecuteConcurrent(data)
		default:
			_, _ = gp.ExecuteSelectedRules(data, []string{"a"})
		}
		vnd.Quiesce()
		for i := range gp.rbSlice {
			for _, k := range []string{"req", "resp", "nothing"} {
				_, e := gp.rbSlice[i].Dc.Get(k)
				vnd.Assert(e != nil, "once the call has returned its data is no longer visible on any instance")
			}
			_, e := gp.rbSlice[i].Dc.Get("ev")
			vnd.Assert(e == nil, "the pool's apis stay injected")
		}
	}
	vnd.Reach("executed")
}

// a local assigned on one path of an earlier request is not there for a later request on the other path
func L5_local_does_not_leak() {
	apis := zzApis()
	for _, call := range []string{"Execute", "ExecuteConcurrent", "ExecuteSelectedRules"} {
		gp, e := NewGenginePool(1, 2, SortModel, "rule \"q\" begin\n if vip {\n  quota = req\n }\n return quota\nend\n", apis)
		zzMust(e, "pool construction")
		for round := 0; round < 4; round++ {
			vip := round%2 == 0
			req := vnd.Int64("req")
			data := map[string]interface{}{"req": req, "vip": vip}
			var err error
			var res map[string]interface{}
			switch call {
			case "Execute":
				err, res = gp.Execute(data, true)
			case "ExecuteConcurrent":
				err, res = gp.ExecuteConcurrent(data)
			default:
				err, res = gp.ExecuteSelectedRules(data, []string{"q"})
			}
			vnd.Quiesce()
			v, has := res["q"]
			if vip {
				x, ok := v.(int64)
				vnd.Assert(err == nil && has && ok && x == req, "the assigning request gets its own value")
			} else {
				vnd.Assert(err != nil, "a request that did not assign the local finds it undefined")
				vnd.Assert(!has, "and gets no value computed from another request's data")
			}
		}
	}
	vnd.Reach("executed")
}

// two overlapping requests: the first blocks inside rule a while the second runs completely
func O_overlap() {
	gp := zzReqPool(1, 2)
	var gate sync.Mutex
	gate.Lock()
	r1, r2 := vnd.Int64("r1"), vnd.Int64("r2")
	var res1 map[string]interface{}
	done := make([]bool, 1)
	var wg sync.WaitGroup
	wg.Add(1)
	go func() {
		defer wg.Done()
		_, res1 = gp.ExecuteSelectedRules(map[string]interface{}{"req": r1, "resp": int64(1), "ev": func(s string) {
			vnd.Event("one:" + s)
			if s == "a.s" {
				gate.Lock() // blocks until the host lets go
				gate.Unlock()
			}
		}}, []string{"a"})
		done[0] = true
	}()
	vnd.Quiesce() // request 1 is now blocked inside rule a, holding an instance
	vnd.Assert(!done[0], "request one is in flight")
	_, res2 := gp.ExecuteSelectedRules(map[string]interface{}{"req": r2, "resp": int64(2)}, []string{"a"})
	gate.Unlock()
	wg.Wait()
	vnd.Quiesce()
	vnd.Assert(done[0], "request one finished")
	x1, ok1 := res1["a"].(int64)
	x2, ok2 := res2["a"].(int64)
	vnd.Assert(ok1 && ok2, "both requests got their result")
	vnd.Assert(x1 == r1, "a request overlapped by another one still reads only its own data")
	vnd.Assert(x2 == r2, "the overlapping request reads only its own data")
	vnd.NoRaces("context.DataContext.base")
	vnd.NoRaces("engine.Gengine.returnResult")
	vnd.Reach("executed")
}
`)
	b.WriteString(`
// three overlapping requests on a (1,3) pool: two are blocked inside rule a while the third runs completely
func O_overlap3() {
	gp := zzReqPool(1, 3)
	var gate sync.Mutex
	gate.Lock()
	r := []int64{vnd.Int64("r1"), vnd.Int64("r2"), vnd.Int64("r3")}
	res := make([]map[string]interface{}, 3)
	var wg sync.WaitGroup
	for k := 0; k < 2; k++ {
		k := k
		wg.Add(1)
		go func() {
			defer wg.Done()
			_, res[k] = gp.ExecuteSelectedRules(map[string]interface{}{"req": r[k], "resp": int64(k), "ev": func(s string) {
				vnd.Event("q" + strconv.Itoa(k) + ":" + s)
				if s == "a.s" {
					gate.Lock() // blocks until the host lets go
					gate.Unlock()
				}
			}}, []string{"a"})
		}()
		vnd.Quiesce() // request k is now blocked inside rule a, holding an instance
	}
	_, res[2] = gp.ExecuteSelectedRules(map[string]interface{}{"req": r[2], "resp": int64(2)}, []string{"a"})
	gate.Unlock()
	wg.Wait()
	vnd.Quiesce()
	for k := 0; k < 3; k++ {
		x, ok := res[k]["a"].(int64)
		vnd.Assert(ok, "every request got its result")
		vnd.Assert(x == r[k], "each of three overlapping requests reads only its own data")
	}
	vnd.NoRaces("context.DataContext.base")
	vnd.NoRaces("engine.Gengine.returnResult")
	vnd.Reach("executed")
}

type zzSink struct {
	mu   sync.Mutex
	Vals []int64
}

func (s *zzSink) Put(v int64) {
	vnd.Event("put.s")
	s.mu.Lock()
	s.Vals = append(s.Vals, v)
	s.mu.Unlock()
	vnd.Event("put.e")
}

type zzReq struct {
	Id   int64
	Sink *zzSink
}

// a rule whose conc block works on the request: everything it started has finished when the pool call returns
func L4_conc_members() {
	apis := zzApis()
	apis["same"] = func(x int64) int64 { return x }
	gp, e := NewGenginePool(1, 2, SortModel, "rule \"a\" begin\n conc {\n  req.Sink.Put(same(req.Id))\n  x = same(req.Id)\n  req.Put2(req.Id)\n }\n return x\nend\n", apis)
	zzMust(e, "pool construction")
	for round := 0; round < 3; round++ {
		id := vnd.Int64("id")
		rq := &zzReq{Id: id, Sink: &zzSink{}}
		err, res := gp.ExecuteSelectedRules(map[string]interface{}{"req": rq}, []string{"a"})
		vnd.Event("ret")
		vnd.RequireJoined("ret")
		vnd.StopIfViolated()
		vnd.Assert(err == nil, "the request succeeds")
		x, ok := res["a"].(int64)
		vnd.Assert(ok && x == id, "the result is computed from this request")
		rq.Sink.mu.Lock()
		n := len(rq.Sink.Vals)
		rq.Sink.mu.Unlock()
		vnd.Assert(n == 2, "every member of the block has delivered into this request's object before the call returns")
		vnd.Quiesce()
	}
	vnd.Reach("executed")
}

func (r *zzReq) Put2(v int64) { r.Sink.Put(v) }
`)
	b.WriteString(`
// the first request is held between the evaluation of an earlier and a later argument of a call while the
// second request evaluates the same call completely
func O_overlap_arguments() {
	apis := zzApis()
	var secondDone sync.WaitGroup
	secondDone.Add(1)
	apis["gate"] = func(me int64) int64 {
		if me == 1 {
			secondDone.Wait()
		}
		return me
	}
	apis["combine"] = func(a, b int64) int64 { return a*1000 + b }
	gp, e := NewGenginePool(1, 2, SortModel, "rule \"a\" begin\n x = combine(req, gate(req))\n return x\nend\n", apis)
	zzMust(e, "pool construction")
	var res1 map[string]interface{}
	var wg sync.WaitGroup
	wg.Add(1)
	go func() {
		defer wg.Done()
		_, res1 = gp.Execute(map[string]interface{}{"req": int64(1)}, true)
	}()
	vnd.Quiesce() // request one is now blocked inside gate
	_, res2 := gp.Execute(map[string]interface{}{"req": int64(2)}, true)
	secondDone.Done()
	wg.Wait()
	vnd.Quiesce()
	x1, ok1 := res1["a"].(int64)
	x2, ok2 := res2["a"].(int64)
	vnd.Assert(ok1 && ok2, "both requests got their result")
	vnd.Assert(x2 == 2002, "the overlapping request reads only its own data")
	vnd.Assert(x1 == 1001, "a request overlapped by another one still reads only its own data")
	vnd.Reach("executed")
}
`)
	// a failed request on each entry point, then two overlapping requests that must not meet on one engine
	for _, pc := range poolCalls() {
		name := "OF_" + pc.name
		fmt.Fprintf(&b, `
// %s with a failing rule, then two overlapping requests each reading only its own data
func %s() {
	gp := zzReqPool(1, 2)
	names := []string{"a", "b"}
	stag := &Stag{}
	_, _ = names, stag
	pol := vnd.Bool("pol")
	_ = pol
	data := map[string]interface{}{"req": int64(1), "resp": int64(5), "fail": true, "quiet": false}
	_, _ = %s
	vnd.Quiesce()
	var gate sync.Mutex
	gate.Lock()
	r1, r2 := vnd.Int64("r1"), vnd.Int64("r2")
	var res1 map[string]interface{}
	var wg sync.WaitGroup
	wg.Add(1)
	go func() {
		defer wg.Done()
		_, res1 = gp.ExecuteSelectedRules(map[string]interface{}{"req": r1, "resp": int64(1), "fail": false, "quiet": false, "ev": func(s string) {
			vnd.Event("one:" + s)
			if s == "a.s" {
				gate.Lock() // blocks until the host lets go
				gate.Unlock()
			}
		}}, []string{"a"})
	}()
	vnd.Quiesce()
	_, res2 := gp.ExecuteSelectedRules(map[string]interface{}{"req": r2, "resp": int64(2), "fail": false, "quiet": false}, []string{"a"})
	gate.Unlock()
	wg.Wait()
	vnd.Quiesce()
	x1, ok1 := res1["a"].(int64)
	x2, ok2 := res2["a"].(int64)
	vnd.Assert(ok1 && ok2, "both requests got their result")
	vnd.Assert(x1 == r1 && x2 == r2, "after a failed request two overlapping requests still read only their own data")
	vnd.Reach("executed")
}
`, pc.name, name, strings.ReplaceAll(strings.ReplaceAll(pc.call, ", true, ", ", pol, "), "data, true)", "data, pol)"))
		fam.Instances = append(fam.Instances, Instance{Func: name, Stratum: "overlap:after-failure", Desc: pc.name + " fails, then two overlapping requests", Expect: []string{"executed"}, Nondet: true})
	}
	fam.Instances = append(fam.Instances, Instance{Func: "O_overlap_arguments", Stratum: "overlap", Desc: "overlap inside the argument evaluation of one call site", Expect: []string{"executed"}, Nondet: true})
	// a call the engine rejects (impossible N/M split, unknown names only, empty DAG) after a request that
	// returned values on the same engine: what comes back holds nothing of the earlier request
	for k, rc := range []struct{ id, call string }{
		{"NSortMConc", "gp.ExecuteNSortMConcurrent(2, 2, true, data)"},
		{"NConcMSort", "gp.ExecuteNConcurrentMSort(2, 2, true, data)"},
		{"NConcMSortZero", "gp.ExecuteNConcurrentMSort(0, 2, true, data)"},
		{"NConcMConc", "gp.ExecuteNConcurrentMConcurrent(3, 1, true, data)"},
		{"SelNSortMConc", "gp.ExecuteSelectedNSortMConcurrent(1, 1, true, []string{\"a\"}, data)"},
		{"SelNConcMSort", "gp.ExecuteSelectedNConcurrentMSort(1, 2, true, []string{\"a\", \"b\"}, data)"},
		{"SelNConcMConc", "gp.ExecuteSelectedNConcurrentMConcurrent(1, 1, true, []string{\"a\", \"zz\"}, data)"},
		{"SelectedUnknown", "gp.ExecuteSelectedRules(data, []string{\"zz\"})"},
		{"SelectedMixUnknown", "gp.ExecuteSelectedRulesMixModel(data, []string{\"zz\", \"yy\"})"},
	} {
		name := fmt.Sprintf("L4_rejected_%d_%s", k, rc.id)
		fmt.Fprintf(&b, `
// a request that returns values on both instances, then the rejected call %s
func %s() {
	gp := zzReqPool(1, 2)
	for which := 0; which < 2; which++ {
		var held *gengineWrapper
		if which == 1 {
			held, _ = gp.getGengine()
		}
		data := map[string]interface{}{"req": int64(7), "resp": int64(8), "fail": false, "quiet": false}
		_, first := gp.Execute(data, true)
		vnd.Assert(len(first) == 2, "the first request returns its two values")
		data = map[string]interface{}{"req": int64(1), "resp": int64(2), "fail": false, "quiet": false}
		err, res := %s
		if held != nil {
			gp.putGengineLocked(held)
		}
		vnd.Quiesce()
		vnd.Assert(err != nil, "the call is rejected")
		vnd.Assert(len(res) == 0, "a rejected call hands out nothing computed for another request")
		vnd.Assert(len(first) == 2, "a returned result map is not modified by later requests")
	}
	vnd.Reach("executed")
}
`, rc.call, name, rc.call)
		fam.Instances = append(fam.Instances, Instance{Func: name, Stratum: "L4:rejected", Desc: "rejected call " + rc.id + " after a returning request", Expect: []string{"executed"}})
	}
	fam.Instances = append(fam.Instances, Instance{Func: "O_overlap3", Stratum: "overlap", Desc: "three overlapping requests on a (1,3) pool", Expect: []string{"executed"}},
		Instance{Func: "L4_conc_members", Stratum: "L4", Desc: "members of a conc block (three-level, assignment, method) are finished when the pool call returns", Expect: []string{"executed"}})
	fam.Instances = append(fam.Instances, Instance{Func: "O_overlap", Stratum: "overlap", Desc: "two overlapping requests", Expect: []string{"executed"}},
		Instance{Func: "L3_tolerated_entries", Stratum: "L3", Desc: "clean-up of a request holding nil-valued and empty-key entries", Expect: []string{"executed"}},
		Instance{Func: "L5_local_does_not_leak", Stratum: "L5", Desc: "rule locals of an earlier request are invisible to later requests", Expect: []string{"executed"}})
	finishPoolFamily(fam, "C06", b.String())
	// O_overlap needs sync
	for p, src := range fam.Files {
		if strings.HasSuffix(p, "zz_vh_c06.go") {
			fam.Files[p] = strings.Replace(src, "import (\n\t\"strconv\"", "import (\n\t\"strconv\"\n\t\"sync\"", 1)
		}
	}
	return fam, nil
}
