package main

import (
	"fmt"
	"strings"

	"symgo/interp"
)

func init() { generators["C12"] = genC12 }

func genC12(tier string, seed int64) (*Family, error) {
	pkg := "c12"
	fam := &Family{
		Prop:       "C12",
		BothOrders: true,
		PkgPath:    modPath + "/zz_verif/" + pkg,
		Files:      map[string]string{},
		Bounds:     map[string]interface{}{"rules_in_set": 3, "name_lists": "sub-lists and permutations of <= 3 existing names, one unknown name at every position, all-unknown, empty, wrong length for N-M (also a count matching only the existing names)"},
		Cfg:        interp.Config{MaxSteps: 3_000_000, TrackAllocs: []string{"*"}, TrackFields: []string{"engine.Gengine.returnResult"}},
		Functions: []string{"ExecuteSelectedRules", "ExecuteSelectedRulesWithControl", "ExecuteSelectedRulesWithControlAsGivenSortedName", "ExecuteSelectedRulesWithControlAndStopTag",
			"ExecuteSelectedRulesWithControlAndStopTagAsGivenSortedName", "ExecuteSelectedRulesConcurrent", "ExecuteSelectedRulesMixModel", "ExecuteSelectedRulesInverseMixModel",
			"ExecuteSelectedNSortMConcurrent", "ExecuteSelectedNConcurrentMSort", "ExecuteSelectedNConcurrentMConcurrent"},
	}
	fam.Assumptions = []string{"name lists without duplicates", "saliences, failing subset and error policy symbolic; the set holds 3 rules (thorough 4)", "schedule handling as in C05"}
	fam.Outside = []string{"duplicate names in a list", "sets larger than the bound"}
	n := 3
	if tier == "thorough" {
		n = 4
	}
	lists := [][]string{{"r0"}, {"r2", "r0"}, {"r1", "r2", "r0"}, {"r0", "zz"}, {"zz", "r1"}, {"r2", "zz", "r1"}, {"r1", "r0", "zz"}, {"zz"}, {}, {"zz", "yy"}, {"zz", "r2", "r0", "r1"}, {"r1", "zz", "r0", "r2"}}
	if tier == "thorough" {
		lists = append(lists, []string{"r3", "r1", "r0", "r2"}, []string{"r0", "r1", "r2"}, []string{"r2", "r1"}, []string{"r3", "zz", "r0", "r1"})
	}
	// names that differ from existing ones only by blanks or case are unknown names
	nPlain := len(lists)
	lists = append(lists, []string{" r0", "r1 "}, []string{"r2", " r0", "R1"})
	var b strings.Builder
	add := func(name, stratum, desc, call, oracle string) {
		fmt.Fprintf(&b, "\n// %s\nfunc %s() {\n\tn := %d\n\ts := symSal(n)\n\tf := symFlags(\"f\", n)\n\tb := vnd.Bool(\"b\")\n\t_ = b\n\trb := build(n, s, f)\n\teng := engine.NewGengine()\n\terr := %s\n\tvnd.Event(\"ret\")\n\tvnd.Quiesce()\n\tvnd.Reach(\"executed\")\n\ttr := vnd.Trace()\n\t_ = tr\n%s}\n", desc, name, n, call, oracle)
		fam.Instances = append(fam.Instances, Instance{Func: name, Stratum: stratum, Desc: desc, Expect: []string{"executed"}})
	}
	for li, l := range lists {
		cand := make([]string, n)
		for i := range cand {
			cand[i] = "false"
		}
		var existing []string
		for _, nm := range l {
			if strings.HasPrefix(nm, "r") && len(nm) == 2 {
				cand[int(nm[1]-'0')] = "true"
				existing = append(existing, string(nm[1]))
			}
		}
		candLit := "[]bool{" + strings.Join(cand, ", ") + "}"
		wantLit := "[]int{" + strings.Join(existing, ", ") + "}"
		names := goStrings(l)
		k := len(existing)
		none := k == 0
		desc := func(fn string) string { return fmt.Sprintf("%s with names %v", fn, l) }
		orNothing := func(oracle string) string {
			if none {
				return "\tnothingRan(n, err)\n"
			}
			return oracle
		}
		id := func(fn string) string { return fmt.Sprintf("H_%s_L%d", fn, li) }
		add(id("Sel"), "ExecuteSelectedRules", desc("ExecuteSelectedRules"), "eng.ExecuteSelectedRules(rb, "+names+")",
			orNothing("\tcheckSorted(tr, n, "+candLit+", s, f, true, err)\n"))
		add(id("SelControl"), "ExecuteSelectedRulesWithControl", desc("ExecuteSelectedRulesWithControl"), "eng.ExecuteSelectedRulesWithControl(rb, b, "+names+")",
			orNothing("\tcheckSorted(tr, n, "+candLit+", s, f, b, err)\n"))
		add(id("SelAsGiven"), "ExecuteSelectedRulesWithControlAsGivenSortedName", desc("ExecuteSelectedRulesWithControlAsGivenSortedName"), "eng.ExecuteSelectedRulesWithControlAsGivenSortedName(rb, b, "+names+")",
			orNothing("\tcheckAsGiven(tr, n, "+wantLit+", nil, f, b, err)\n"))
		add(id("SelStopTag"), "ExecuteSelectedRulesWithControlAndStopTag", desc("ExecuteSelectedRulesWithControlAndStopTag (tag never set)"), "eng.ExecuteSelectedRulesWithControlAndStopTag(rb, b, &engine.Stag{}, "+names+")",
			orNothing("\tcheckSorted(tr, n, "+candLit+", s, f, b, err)\n"))
		add(id("SelStopTagAsGiven"), "ExecuteSelectedRulesWithControlAndStopTagAsGivenSortedName", desc("ExecuteSelectedRulesWithControlAndStopTagAsGivenSortedName (tag never set)"), "eng.ExecuteSelectedRulesWithControlAndStopTagAsGivenSortedName(rb, b, &engine.Stag{}, "+names+")",
			orNothing("\tcheckAsGiven(tr, n, "+wantLit+", nil, f, b, err)\n"))
		add(id("SelConc"), "ExecuteSelectedRulesConcurrent", desc("ExecuteSelectedRulesConcurrent"), "eng.ExecuteSelectedRulesConcurrent(rb, "+names+")",
			orNothing(fmt.Sprintf("\tcheckTwoStageCand(tr, n, %s, %d, 0, false, false, s, f, true, err)\n", candLit, k)))
		if li >= nPlain {
			continue // padded names: the sorted, as-given, stop-tag and concurrent entry points
		}
		add(id("SelMix"), "ExecuteSelectedRulesMixModel", desc("ExecuteSelectedRulesMixModel"), "eng.ExecuteSelectedRulesMixModel(rb, "+names+")",
			orNothing(fmt.Sprintf("\tcheckTwoStageCand(tr, n, %s, 1, %d, true, false, s, f, false, err)\n", candLit, k-1)))
		inv1 := "true"
		if k >= 3 {
			inv1 = "false"
		}
		invOracle := fmt.Sprintf("\tcheckTwoStageCand(tr, n, %s, %d, 1, %s, true, s, f, false, err)\n", candLit, k-1, inv1)
		if k == 1 {
			invOracle = fmt.Sprintf("\tcheckTwoStageCand(tr, n, %s, 1, 0, true, true, s, f, false, err)\n", candLit)
		}
		add(id("SelInverse"), "ExecuteSelectedRulesInverseMixModel", desc("ExecuteSelectedRulesInverseMixModel"), "eng.ExecuteSelectedRulesInverseMixModel(rb, "+names+")", orNothing(invOracle))
		// selected N-M: every split of len(l); plus a wrong-length call
		type nm struct {
			fn     string
			s1, s2 bool
		}
		for _, m := range []nm{{"ExecuteSelectedNSortMConcurrent", true, false}, {"ExecuteSelectedNConcurrentMSort", false, true}, {"ExecuteSelectedNConcurrentMConcurrent", false, false}} {
			short := strings.TrimPrefix(m.fn, "ExecuteSelected")
			for N := 1; N < len(l); N++ {
				M := len(l) - N
				oracle := "\tnothingRan(n, err)\n"
				if k == len(l) {
					oracle = fmt.Sprintf("\tcheckTwoStageCand(tr, n, %s, %d, %d, %v, %v, s, f, b, err)\n", candLit, N, M, m.s1, m.s2)
				}
				add(fmt.Sprintf("H_%s_L%d_%d_%d", short, li, N, M), m.fn, fmt.Sprintf("%s N=%d M=%d names %v", m.fn, N, M, l),
					fmt.Sprintf("eng.%s(%d, %d, rb, b, %s)", m.fn, N, M, names), oracle)
			}
			if len(l) >= 1 {
				add(fmt.Sprintf("H_%s_L%d_wronglen", short, li), m.fn+":rejected", fmt.Sprintf("%s N=1 M=%d with %d names", m.fn, len(l), len(l)),
					fmt.Sprintf("eng.%s(1, %d, rb, b, %s)", m.fn, len(l), names), "\tnothingRan(n, err)\n")
			}
			if k >= 2 && k < len(l) {
				// an unknown name and a count that matches only the existing names: still rejected
				add(fmt.Sprintf("H_%s_L%d_shortcount", short, li), m.fn+":rejected", fmt.Sprintf("%s N=1 M=%d with names %v", m.fn, k-1, l),
					fmt.Sprintf("eng.%s(1, %d, rb, b, %s)", m.fn, k-1, names), "\tnothingRan(n, err)\n")
			}
		}
	}
	// the same selection again after the set changed under the same builder (a rule added, one replaced)
	for _, d := range []struct{ id, call, oracle string }{
		{"Sel", "eng.ExecuteSelectedRules(rb, names)", "checkSorted(tr, n, allTrue(n), s, f, true, err)"},
		{"SelControl", "eng.ExecuteSelectedRulesWithControl(rb, b, names)", "checkSorted(tr, n, allTrue(n), s, f, b, err)"},
		{"SelAsGiven", "eng.ExecuteSelectedRulesWithControlAsGivenSortedName(rb, b, names)", "checkAsGiven(tr, n, []int{2, 1, 0}, nil, f, b, err)"},
		{"SelStopTag", "eng.ExecuteSelectedRulesWithControlAndStopTag(rb, b, &engine.Stag{}, names)", "checkSorted(tr, n, allTrue(n), s, f, b, err)"},
		{"SelConcurrent", "eng.ExecuteSelectedRulesConcurrent(rb, names)", "for i := 0; i < n; i++ {\n\t\tvnd.Assert(countSince(mark, sname(i)) == 1, \"every named rule of the current set runs once\")\n\t}"},
	} {
		name := "Q_" + d.id + "_after_incremental"
		fmt.Fprintf(&b, `
// %s twice with equal names, the set extended and changed in between through the same builder
func %s() {
	n := 3
	s := []int64{9, 5, vnd.Int64("s2")}
	f := allFalse(n)
	b := vnd.Bool("b")
	_ = b
	rb := build(2, s[:2], f)
	eng := engine.NewGengine()
	names := []string{"r2", "r1", "r0"}
	_ = %s
	vnd.Quiesce()
	s[0] = vnd.Int64("s0new")
	vnd.ExploreMapOrder(true)
	must(rb.BuildRuleWithIncremental(oneRule(2, s[2], "")+oneRule(0, s[0], "")), "incremental build")
	vnd.ExploreMapOrder(false)
	mark := len(vnd.Trace())
	err := %s
	vnd.Event("ret")
	vnd.Quiesce()
	vnd.Reach("executed")
	tr := vnd.Trace()[mark:]
	_, _ = tr, err
	%s
}
`, d.id, name, d.call, d.call, d.oracle)
		fam.Instances = append(fam.Instances, Instance{Func: name, Stratum: "sequence:" + d.id, Desc: d.id + " repeated after an incremental build", Expect: []string{"executed"}})
	}
	// the pool's wrappers of the selected entry points (same oracles, data injected per request)
	b.WriteString(`
func poolFor(n int, s []int64) *engine.GenginePool {
	apis := map[string]interface{}{"ev": func(x string) { vnd.Event(x) }, "one": int64(1), "zero": int64(0)}
	vnd.ExploreMapOrder(true)
	gp, e := engine.NewGenginePool(1, 2, engine.SortModel, rulesText(n, s), apis)
	vnd.ExploreMapOrder(false)
	must(e, "pool construction")
	return gp
}

func flagData(f []bool) map[string]interface{} {
	d := map[string]interface{}{}
	for i := range f {
		d["f"+strconv.Itoa(i)] = f[i]
	}
	return d
}
`)
	addPool := func(name, stratum, desc, call, oracle string) {
		fmt.Fprintf(&b, "\n// %s\nfunc %s() {\n\tn := %d\n\ts := symSal(n)\n\tf := symFlags(\"f\", n)\n\tb := vnd.Bool(\"b\")\n\t_ = b\n\tgp := poolFor(n, s)\n\tdata := flagData(f)\n\terr, _ := %s\n\tvnd.Event(\"ret\")\n\tvnd.Quiesce()\n\tvnd.Reach(\"executed\")\n\ttr := vnd.Trace()\n\t_ = tr\n%s}\n", desc, name, n, call, oracle)
		fam.Instances = append(fam.Instances, Instance{Func: name, Stratum: stratum, Desc: desc, Expect: []string{"executed"}})
	}
	{
		names3, cand3 := goStrings([]string{"r1", "r2", "r0"}), "[]bool{true, true, true"+strings.Repeat(", false", n-3)+"}"
		namesU, candU := goStrings([]string{"r2", "zz", "r1"}), "[]bool{false, true, true"+strings.Repeat(", false", n-3)+"}"
		addPool("P_Sel", "pool:ExecuteSelectedRules", "pool.ExecuteSelectedRules [r1 r2 r0]", "gp.ExecuteSelectedRules(data, "+names3+")", "\tcheckSorted(tr, n, "+cand3+", s, f, true, err)\n")
		addPool("P_SelControl", "pool:ExecuteSelectedRulesWithControl", "pool.ExecuteSelectedRulesWithControl [r2 zz r1]", "gp.ExecuteSelectedRulesWithControl(data, b, "+namesU+")", "\tcheckSorted(tr, n, "+candU+", s, f, b, err)\n")
		addPool("P_SelAsGiven", "pool:ExecuteSelectedRulesWithControlAsGivenSortedName", "pool.ExecuteSelectedRulesWithControlAsGivenSortedName [r1 r2 r0]", "gp.ExecuteSelectedRulesWithControlAsGivenSortedName(data, b, "+names3+")", "\tcheckAsGiven(tr, n, []int{1, 2, 0}, nil, f, b, err)\n")
		addPool("P_SelStopTag", "pool:ExecuteSelectedRulesWithControlAndStopTag", "pool.ExecuteSelectedRulesWithControlAndStopTag [r1 r2 r0]", "gp.ExecuteSelectedRulesWithControlAndStopTag(data, b, &engine.Stag{}, "+names3+")", "\tcheckSorted(tr, n, "+cand3+", s, f, b, err)\n")
		addPool("P_SelStopTagAsGiven", "pool:ExecuteSelectedRulesWithControlAndStopTagAsGivenSortedName", "pool.ExecuteSelectedRulesWithControlAndStopTagAsGivenSortedName [r2 zz r1]", "gp.ExecuteSelectedRulesWithControlAndStopTagAsGivenSortedName(data, b, &engine.Stag{}, "+namesU+")", "\tcheckAsGiven(tr, n, []int{2, 1}, nil, f, b, err)\n")
		addPool("P_SelConc", "pool:ExecuteSelectedRulesConcurrent", "pool.ExecuteSelectedRulesConcurrent [r1 r2 r0]", "gp.ExecuteSelectedRulesConcurrent(data, "+names3+")", "\tcheckTwoStageCand(tr, n, "+cand3+", 3, 0, false, false, s, f, true, err)\n")
		addPool("P_SelMix", "pool:ExecuteSelectedRulesMixModel", "pool.ExecuteSelectedRulesMixModel [r1 r2 r0]", "gp.ExecuteSelectedRulesMixModel(data, "+names3+")", "\tcheckTwoStageCand(tr, n, "+cand3+", 1, 2, true, false, s, f, false, err)\n")
		// the pool's dispatcher on its execution model, the model set at run time
		for _, d := range []struct{ id, model, oracle string }{
			{"Sort", "SortModel", "\tcheckSorted(tr, n, " + cand3 + ", s, f, true, err)\n"},
			{"Concurrent", "ConcurrentModel", "\tcheckTwoStageCand(tr, n, " + cand3 + ", 3, 0, false, false, s, f, true, err)\n"},
			{"Mix", "MixModel", "\tcheckTwoStageCand(tr, n, " + cand3 + ", 1, 2, true, false, s, f, false, err)\n"},
			{"Inverse", "InverseMixModel", "\tcheckTwoStageCand(tr, n, " + cand3 + ", 2, 1, false, true, s, f, false, err)\n"},
		} {
			addPool("P_SelSpecifiedEM_"+d.id, "pool:ExecuteSelectedWithSpecifiedEM", "pool.ExecuteSelectedWithSpecifiedEM under "+d.model+" [r1 r2 r0]",
				"func() (error, map[string]interface{}) {\n\t\tmust(gp.SetExecModel(engine."+d.model+"), \"model change\")\n\t\treturn gp.ExecuteSelectedWithSpecifiedEM(data, "+names3+")\n\t}()", d.oracle)
		}
		addPool("P_SelInverse", "pool:ExecuteSelectedRulesInverseMixModel", "pool.ExecuteSelectedRulesInverseMixModel [r1 r2 r0]", "gp.ExecuteSelectedRulesInverseMixModel(data, "+names3+")", "\tcheckTwoStageCand(tr, n, "+cand3+", 2, 1, false, true, s, f, false, err)\n")
		for _, nmv := range []struct {
			fn     string
			s1, s2 bool
		}{{"ExecuteSelectedNSortMConcurrent", true, false}, {"ExecuteSelectedNConcurrentMSort", false, true}, {"ExecuteSelectedNConcurrentMConcurrent", false, false}} {
			for _, sp := range [][2]int{{1, 2}, {2, 1}} {
				addPool(fmt.Sprintf("P_%s_%d_%d", strings.TrimPrefix(nmv.fn, "ExecuteSelected"), sp[0], sp[1]), "pool:"+nmv.fn, fmt.Sprintf("pool.%s N=%d M=%d [r1 r2 r0]", nmv.fn, sp[0], sp[1]),
					fmt.Sprintf("gp.%s(%d, %d, b, %s, data)", nmv.fn, sp[0], sp[1], names3), fmt.Sprintf("\tcheckTwoStageCand(tr, n, %s, %d, %d, %v, %v, s, f, b, err)\n", cand3, sp[0], sp[1], nmv.s1, nmv.s2))
			}
			addPool("P_"+strings.TrimPrefix(nmv.fn, "ExecuteSelected")+"_unknown", "pool:"+nmv.fn, "pool."+nmv.fn+" with an unknown name", fmt.Sprintf("gp.%s(1, 2, b, %s, data)", nmv.fn, namesU), "\tnothingRan(n, err)\n")
		}
	}
	fam.Files[repoDir+"/zz_verif/"+pkg+"/h.go"] = strings.Replace(stdHead(pkg), "import (", "import (\n\t\"strconv\"", 1) + b.String()
	fam.Files[repoDir+"/zz_verif/"+pkg+"/lib.go"] = libFile(pkg)
	fam.TestFile = repoDir + "/zz_verif/" + pkg + "/zz_replay_test.go"
	fam.TestSrc = testFile(pkg, fam.Instances)
	return fam, nil
}
