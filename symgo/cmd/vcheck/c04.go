package main

import (
	"fmt"
	"strings"

	"symgo/interp"
)

func init() { generators["C04"] = genC04 }

func goStrings(xs []string) string {
	var q []string
	for _, x := range xs {
		q = append(q, fmt.Sprintf("%q", x))
	}
	return "[]string{" + strings.Join(q, ", ") + "}"
}

func genC04(tier string, seed int64) (*Family, error) {
	pkg := "c04"
	fam := &Family{
		Prop:    "C04",
		PkgPath: modPath + "/zz_verif/" + pkg,
		Files:   map[string]string{},
		Bounds:  map[string]interface{}{},
		Cfg:     interp.Config{MaxSteps: 2_000_000},
		Functions: []string{"(*github.com/bilibili/gengine/builder.RuleBuilder).BuildRuleFromString", "engine.Gengine).Execute",
			"engine.Gengine).ExecuteWithStopTagDirect", "engine.Gengine).ExecuteSelectedRules", "engine.Gengine).ExecuteSelectedRulesWithControl",
			"base.RuleEntity).Execute"},
	}
	maxN := 3
	if tier == "thorough" {
		maxN = 4
	}
	fam.Bounds["rules_per_set"] = fmt.Sprintf("1..%d", maxN)
	fam.Bounds["saliences"] = "symbolic int64 (all values, ties included)"
	fam.Bounds["failing_subset"] = "symbolic (every subset)"
	fam.Bounds["error_policy"] = "symbolic bool"
	fam.Bounds["map_iteration_orders"] = "all permutations for <= 3 entries; identity, reverse and rotations above"
	fam.Assumptions = []string{
		"rule sets have between 1 and the stated number of rules; larger sets are outside the claim",
		"ANTLR lexer/parser and the parse-tree listener run natively on the concrete rule text (parser bridge); saliences are re-symbolised after parsing through marker literals",
		"sort.SliceStable is modelled by its contract (a stable sort driven by the interpreted less function)",
		"a rule fails through a division by zero in an assignment; other fault classes are covered by C09",
	}
	fam.Outside = []string{"rule sets larger than the bound", "the empty rule set (rejected by design)"}

	var b strings.Builder
	b.WriteString("package " + pkg + "\n\nimport (\n\t\"strconv\"\n\n\t\"github.com/bilibili/gengine/engine\"\n\t\"github.com/bilibili/gengine/zz_verif/vnd\"\n)\n\n")
	add := func(name, stratum, desc, body string, n int) {
		fmt.Fprintf(&b, "\n// %s: %s\nfunc %s() {\n\tn := %d\n\ts := symSal(n)\n\tf := symFlags(\"f\", n)\n\tb := vnd.Bool(\"b\")\n\trb := build(n, s, f)\n\teng := engine.NewGengine()\n%s}\n", name, desc, name, n, body)
		fam.Instances = append(fam.Instances, Instance{Func: name, Stratum: stratum, Desc: desc, Expect: []string{"executed"}})
	}
	for n := 1; n <= maxN; n++ {
		add(fmt.Sprintf("H_Execute_%d", n), "Execute", fmt.Sprintf("sort model, %d rules", n), `	err := eng.Execute(rb, b)
	vnd.Reach("executed")
	checkSorted(vnd.Trace(), n, allTrue(n), s, f, b, err)
`, n)
		add(fmt.Sprintf("H_StopTagNeverSet_%d", n), "ExecuteWithStopTagDirect", fmt.Sprintf("sort model with an unset stop tag, %d rules", n), `	err := eng.ExecuteWithStopTagDirect(rb, b, &engine.Stag{})
	vnd.Reach("executed")
	checkSorted(vnd.Trace(), n, allTrue(n), s, f, b, err)
`, n)
	}
	// the failure comes from a failing return expression
	for n := 1; n <= maxN && n <= 3; n++ {
		name := fmt.Sprintf("H_ExecuteRetFail_%d", n)
		fmt.Fprintf(&b, "\n// sort model, a rule fails in its top-level return expression, %d rules\nfunc %s() {\n\tn := %d\n\ts := symSal(n)\n\tz := symVals(\"z\", n)\n\tf := make([]bool, n)\n\tfor i := range f {\n\t\tf[i] = z[i] == 0\n\t}\n\tb := vnd.Bool(\"b\")\n\tdc := newDC(nil)\n\taddVals(dc, \"z\", z)\n\trb := buildText(dc, rulesTextRetFail(n, s))\n\teng := engine.NewGengine()\n\terr := eng.Execute(rb, b)\n\tvnd.Reach(\"executed\")\n\tcheckSortedStarts(vnd.Trace(), n, allTrue(n), s, nil, f, b, err)\n\tres, _ := eng.GetRulesResultMap()\n\tfor i := 0; i < n; i++ {\n\t\tif vnd.Count(sname(i)) == 1 {\n\t\t\t_, has := res[\"r\"+strconv.Itoa(i)]\n\t\t\tvnd.Assert(vnd.Iff(has, !f[i]), \"a failing return expression yields no value, a successful one does\")\n\t\t}\n\t}\n}\n", n, name, n)
		fam.Instances = append(fam.Instances, Instance{Func: name, Stratum: "Execute:return-fault", Desc: fmt.Sprintf("sort model, failing return expression, %d rules", n), Expect: []string{"executed"}})
	}
	// the set was extended by an incremental build (and shrunk by a removal) before it runs
	for n := 1; n <= 2; n++ {
		name := fmt.Sprintf("H_IncrementalThenExecute_%d", n)
		fmt.Fprintf(&b, `
// %d rules built, one more added incrementally, then the sort model
func %s() {
	n := %d
	s := symSal(n + 1)
	f := symFlags("f", n+1)
	b := vnd.Bool("b")
	rb := build(n, s[:n], f)
	vnd.ExploreMapOrder(true)
	must(rb.BuildRuleWithIncremental(oneRule(n, s[n], "")), "incremental build")
	vnd.ExploreMapOrder(false)
	eng := engine.NewGengine()
	err := eng.Execute(rb, b)
	vnd.Reach("executed")
	checkSorted(vnd.Trace(), n+1, allTrue(n+1), s, f, b, err)
	if n >= 2 {
		mark := len(vnd.Trace())
		must(rb.RemoveRules([]string{"r0"}), "removal")
		err = eng.Execute(rb, b)
		cand := allTrue(n + 1)
		cand[0] = false
		checkSorted(vnd.Trace()[mark:], n+1, cand, s, f, b, err)
	}
}
`, n, name, n)
		fam.Instances = append(fam.Instances, Instance{Func: name, Stratum: "Execute:incremental", Desc: fmt.Sprintf("sort model over %d built + 1 incrementally added rule, then after a removal", n), Expect: []string{"executed"}})
	}
	// a removal, then a surviving rule re-sent incrementally (same and changed salience), then the sort model
	for _, same := range []bool{true, false} {
		name := fmt.Sprintf("H_RemoveThenResend_%v", same)
		fmt.Fprintf(&b, `
// four rules, the first by name removed, a survivor re-sent (same salience: %v), then the sort model
func %s() {
	n := 4
	s := symSal(n)
	f := symFlags("f", n)
	b := vnd.Bool("b")
	vnd.Assume(vnd.And(s[0] >= s[1], vnd.And(s[1] >= s[2], s[2] >= s[3])))
	rb := build(n, s, f)
	must(rb.RemoveRules([]string{"r0"}), "removal")
	if !%v {
		s[2] = vnd.Int64("s2new")
	}
	must(rb.BuildRuleWithIncremental(oneRule(2, s[2], "")), "incremental build")
	eng := engine.NewGengine()
	err := eng.Execute(rb, b)
	vnd.Reach("executed")
	cand := allTrue(n)
	cand[0] = false
	checkSorted(vnd.Trace(), n, cand, s, f, b, err)
	vnd.Assert(vnd.Count(sname(0)) == 0, "the removed rule never runs")
}
`, same, name, same)
		fam.Instances = append(fam.Instances, Instance{Func: name, Stratum: "Execute:remove-resend", Desc: fmt.Sprintf("removal, re-send of a survivor (same salience %v), sort model", same), Expect: []string{"executed"}})
	}
	// a rule whose work (and failure) sits in a method call inside a conc block: the next rule starts only after it
	b.WriteString(`
type slowObj struct{ fail bool }

func (o *slowObj) Work() {
	vnd.Event("work.s")
	if o.fail {
		panic("work failed")
	}
	vnd.Event("work.e")
}

func H_ConcMethodInRule() {
	p, b := vnd.Bool("p"), vnd.Bool("b")
	dc := newDC(allFalse(2))
	dc.Add("o", &slowObj{fail: p})
	rb := buildText(dc, "rule \"r0\" salience 9 begin\n ev(\"r0.s\")\n conc {\n  o.Work()\n  k = 1\n }\n ev(\"r0.e\")\nend\nrule \"r1\" salience 5 begin\n ev(\"r1.s\")\n ev(\"r1.e\")\nend\n")
	eng := engine.NewGengine()
	err := eng.Execute(rb, b)
	vnd.Event("ret")
	vnd.Quiesce()
	vnd.Reach("executed")
	vnd.RequireJoined("ret")
	if vnd.Count("r1.s") > 0 {
		if p {
			vnd.RequireOrder("work.s", "r1.s")
		} else {
			vnd.RequireOrder("work.e", "r1.s")
		}
	}
	vnd.StopIfViolated()
	vnd.Assert(vnd.Iff(err != nil, p), "error iff a started rule failed")
	vnd.Assert(vnd.Count("work.s") == 1, "the member runs once")
	vnd.Assert(vnd.Iff(vnd.Count("r0.e") == 1, vnd.Not(p)), "a failed rule stops at the failure")
	vnd.Assert(vnd.Iff(vnd.Count("r1.s") == 1, vnd.Or(vnd.Not(p), b)), "the next rule runs as the policy prescribes")
}
`)
	fam.Instances = append(fam.Instances, Instance{Func: "H_ConcMethodInRule", Stratum: "Execute:conc-member", Desc: "sort model, first rule's work and failure inside a conc method call", Expect: []string{"executed"}})
	// six installed rules; the lowest or the third one re-sent with another (symbolic, possibly tying) salience
	for _, which := range []int{5, 2} {
		name := fmt.Sprintf("H_ResendOfSix_%d", which)
		fmt.Fprintf(&b, `
// six rules at 60..10, rule %d re-sent incrementally with a symbolic salience, then the sort model
func %s() {
	n := 6
	s := []int64{60, 50, 40, 30, 20, 10}
	f := allFalse(n)
	rb := build(n, s, f)
	s[%d] = vnd.Int64("q")
	vnd.Assume(vnd.And(s[%d] >= 0, s[%d] <= 70))
	must(rb.BuildRuleWithIncremental(oneRule(%d, s[%d], "")), "incremental build")
	eng := engine.NewGengine()
	err := eng.Execute(rb, true)
	vnd.Reach("executed")
	checkSorted(vnd.Trace(), n, allTrue(n), s, f, true, err)
}
`, which, name, which, which, which, which, which)
		fam.Instances = append(fam.Instances, Instance{Func: name, Stratum: "Execute:resend-six", Desc: fmt.Sprintf("six rules, rule %d re-sent with a symbolic salience in 0..70, sort model", which), Expect: []string{"executed"}})
	}
	// a rule without a salience clause has salience 0 wherever it stands in the text; a rule failing inside a for body fails
	b.WriteString(`
func H_DefaultSalience() {
	sa, sb := vnd.Int64("sa"), vnd.Int64("sb")
	b := vnd.Bool("b")
	f := symFlags("f", 4)
	dc := newDC(f)
	rule := func(k int, sal string) string {
		n := strconv.Itoa(k)
		return "rule \"r" + n + "\" " + sal + "\nbegin\n ev(\"r" + n + ".s\")\n if f" + n + " {\n  for i = 0; i < 2; i += 1 {\n   if i == 1 {\n    z = one / zero\n   }\n  }\n }\n ev(\"r" + n + ".e\")\nend\n"
	}
	text := rule(0, "salience "+vnd.SalText(sa)) + rule(1, "") + rule(2, "salience "+vnd.SalText(sb)) + rule(3, "")
	rb := buildText(dc, text)
	eng := engine.NewGengine()
	err := eng.Execute(rb, b)
	vnd.Reach("executed")
	checkSorted(vnd.Trace(), 4, allTrue(4), []int64{sa, 0, sb, 0}, f, b, err)
}
`)
	fam.Instances = append(fam.Instances, Instance{Func: "H_DefaultSalience", Stratum: "Execute:default-salience", Desc: "rules without a salience clause between rules with symbolic saliences; faults inside a for body", Expect: []string{"executed"}})
	// saliences written with leading zeros and signs are decimal numbers
	b.WriteString(`
func H_LeadingZeroSaliences() {
	b := vnd.Bool("b")
	dc := newDC(allFalse(5))
	text := ""
	for i, sal := range []string{"050", "045", "-010", "-009", "0100"} {
		k := strconv.Itoa(i)
		text += "rule \"r" + k + "\" salience " + sal + "\nbegin\n ev(\"r" + k + ".s\")\n ev(\"r" + k + ".e\")\nend\n"
	}
	rb := buildText(dc, text)
	eng := engine.NewGengine()
	err := eng.Execute(rb, b)
	vnd.Reach("executed")
	checkSorted(vnd.Trace(), 5, allTrue(5), []int64{50, 45, -10, -9, 100}, allFalse(5), b, err)
	err = eng.ExecuteSelectedRulesWithControl(rb, b, []string{"r3", "r1", "r2", "r0"})
	ord := startOrder(vnd.Trace()[10:], 5)
	vnd.Assert(err == nil && len(ord) == 4 && ord[0] == 0 && ord[1] == 1 && ord[2] == 3 && ord[3] == 2, "selected rules run by decimal salience")
}
`)
	fam.Instances = append(fam.Instances, Instance{Func: "H_LeadingZeroSaliences", Stratum: "Execute:literal-saliences", Desc: "saliences 050, 045, -010, -009, 0100", Expect: []string{"executed"}})
	// a rule that sets the stop tag and then fails: the failure still counts
	for n := 1; n <= 2; n++ {
		name := fmt.Sprintf("H_StopTagSetAndFail_%d", n)
		fmt.Fprintf(&b, `
// sort model with stop tag, %d rules, symbolic tag setters
func %s() {
	n := %d
	s := symSal(n)
	f := symFlags("f", n)
	t := symFlags("t", n)
	b := vnd.Bool("b")
	stag := &engine.Stag{}
	dc := newDC(f)
	addFlags(dc, "t", t)
	dc.Add("stag", stag)
	rb := buildText(dc, rulesTextOpt(n, s, "t"))
	eng := engine.NewGengine()
	var err error
	if vnd.Bool("selected") {
		err = eng.ExecuteSelectedRulesWithControlAndStopTag(rb, b, stag, %s)
	} else {
		err = eng.ExecuteWithStopTagDirect(rb, b, stag)
	}
	vnd.Reach("executed")
	checkSortedTag(vnd.Trace(), n, allTrue(n), s, t, f, b, err)
}
`, n, name, n, namesLit(n))
		fam.Instances = append(fam.Instances, Instance{Func: name, Stratum: "stop-tag", Desc: fmt.Sprintf("sorted stop-tag variants, %d rules, a rule may set the tag and fail", n), Expect: []string{"executed"}})
	}
	// a selected call must leave the builder's sorted list intact for the next call
	for k, call := range []string{
		"eng.ExecuteSelectedRules(rb, names)", "eng.ExecuteSelectedRulesWithControl(rb, true, names)", "eng.ExecuteSelectedRulesWithControlAsGivenSortedName(rb, true, names)",
		"eng.ExecuteSelectedRulesWithControlAndStopTag(rb, true, &engine.Stag{}, names)", "eng.ExecuteSelectedRulesWithControlAndStopTagAsGivenSortedName(rb, true, &engine.Stag{}, names)",
	} {
		name := fmt.Sprintf("H_SelectedThenExecute_%d", k)
		fmt.Fprintf(&b, "\n// %s on [r2 r1], then the sort model on the same builder\nfunc %s() {\n\tn := 3\n\ts := symSal(n)\n\tf := symFlags(\"f\", n)\n\tb := vnd.Bool(\"b\")\n\trb := build(n, s, allFalse(n))\n\teng := engine.NewGengine()\n\tnames := []string{\"r2\", \"r1\"}\n\t_ = %s\n\tmark := len(vnd.Trace())\n\taddFlags(rb.Dc, \"f\", f)\n\terr := eng.Execute(rb, b)\n\tvnd.Reach(\"executed\")\n\tcheckSorted(vnd.Trace()[mark:], n, allTrue(n), s, f, b, err)\n}\n", call, name, call)
		fam.Instances = append(fam.Instances, Instance{Func: name, Stratum: "sequence", Desc: call + " then Execute on the same builder", Expect: []string{"executed"}})
	}
	// sorted selected variants: full list in reverse order and a sub-list
	for n := 2; n <= maxN; n++ {
		var all, sub []string
		cand := make([]string, n)
		for i := n - 1; i >= 0; i-- {
			all = append(all, fmt.Sprintf("r%d", i))
		}
		for i := 0; i < n; i++ {
			cand[i] = "false"
		}
		for i := n - 1; i >= 1; i-- {
			sub = append(sub, fmt.Sprintf("r%d", i))
			cand[i] = "true"
		}
		add(fmt.Sprintf("H_Selected_%d", n), "ExecuteSelectedRules", fmt.Sprintf("selected sorted (continue on error), all %d rules named in reverse", n), fmt.Sprintf(`	_ = b
	err := eng.ExecuteSelectedRules(rb, %s)
	vnd.Reach("executed")
	checkSorted(vnd.Trace(), n, allTrue(n), s, f, true, err)
`, goStrings(all)), n)
		add(fmt.Sprintf("H_SelectedControl_%d", n), "ExecuteSelectedRulesWithControl", fmt.Sprintf("selected sorted with error policy, all %d rules named in reverse", n), fmt.Sprintf(`	err := eng.ExecuteSelectedRulesWithControl(rb, b, %s)
	vnd.Reach("executed")
	checkSorted(vnd.Trace(), n, allTrue(n), s, f, b, err)
`, goStrings(all)), n)
		add(fmt.Sprintf("H_SelectedControlSub_%d", n), "ExecuteSelectedRulesWithControl", fmt.Sprintf("selected sorted with error policy, %d of %d rules named", n-1, n), fmt.Sprintf(`	err := eng.ExecuteSelectedRulesWithControl(rb, b, %s)
	vnd.Reach("executed")
	checkSorted(vnd.Trace(), n, []bool{%s}, s, f, b, err)
`, goStrings(sub), strings.Join(cand, ", ")), n)
	}
	fam.Files[repoDir+"/zz_verif/"+pkg+"/h.go"] = b.String()
	fam.Files[repoDir+"/zz_verif/"+pkg+"/lib.go"] = libFile(pkg)
	fam.TestFile = repoDir + "/zz_verif/" + pkg + "/zz_replay_test.go"
	fam.TestSrc = testFile(pkg, fam.Instances)
	return fam, nil
}
