package main

import (
	"strings"
	"bufio"
	"encoding/json"
	"fmt"
	"io"
	"os"
	"os/exec"
	"path/filepath"
	"sync"

	"symgo/interp"
)

// bridgeClient runs the native parser helper (built from /repo) and caches
// its answers per text.
type bridgeClient struct {
	mu    sync.Mutex
	cmd   *exec.Cmd
	in    io.WriteCloser
	out   *bufio.Reader
	cache map[string]*interp.ParseResult
	Calls int
	Texts int
	bin   string
}

func overlayJSON(dir string, files map[string]string) (string, error) {
	ov := struct {
		Replace map[string]string
	}{files}
	b, _ := json.Marshal(ov)
	p := filepath.Join(dir, "overlay.json")
	return p, os.WriteFile(p, b, 0o644)
}

func buildBridge(scratch string) (*bridgeClient, error) {
	ovp, err := overlayJSON(scratch, map[string]string{
		repoDir + "/zz_verif/bridge/main.go": "/verif/overlay/bridge/main.go",
	})
	if err != nil {
		return nil, err
	}
	bin := filepath.Join(scratch, "bridge.bin")
	cmd := exec.Command("go", "build", "-overlay", ovp, "-o", bin, "./zz_verif/bridge")
	cmd.Dir = repoDir
	cmd.Env = goEnv()
	if out, err := cmd.CombinedOutput(); err != nil {
		return nil, fmt.Errorf("building the parser bridge from /repo failed: %v\n%s", err, out)
	}
	c := &bridgeClient{cache: map[string]*interp.ParseResult{}, bin: bin}
	return c, c.start()
}

func (c *bridgeClient) start() error {
	c.cmd = exec.Command(c.bin)
	in, err := c.cmd.StdinPipe()
	if err != nil {
		return err
	}
	out, err := c.cmd.StdoutPipe()
	if err != nil {
		return err
	}
	c.cmd.Stderr = os.Stderr
	if err := c.cmd.Start(); err != nil {
		return err
	}
	c.in, c.out = in, bufio.NewReaderSize(out, 1<<20)
	return nil
}

func (c *bridgeClient) Parse(text string) (*interp.ParseResult, error) {
	c.mu.Lock()
	defer c.mu.Unlock()
	c.Calls++
	if r, ok := c.cache[text]; ok {
		return r, nil
	}
	req, _ := json.Marshal(map[string]interface{}{"text": strings.TrimPrefix(text, interp.FillMark), "fill": strings.HasPrefix(text, interp.FillMark)})
	if _, err := c.in.Write(append(req, '\n')); err != nil {
		return nil, err
	}
	line, err := c.out.ReadBytes('\n')
	if err != nil {
		// helper died (e.g. fatal error inside the parser): restart, report
		c.cmd.Wait()
		c.start()
		r := &interp.ParseResult{Panic: "native front end crashed on this text"}
		c.cache[text] = r
		return r, nil
	}
	r := &interp.ParseResult{}
	if err := json.Unmarshal(line, r); err != nil {
		return nil, fmt.Errorf("bridge answer: %v", err)
	}
	c.cache[text] = r
	c.Texts++
	return r, nil
}

func (c *bridgeClient) Close() {
	if c.cmd != nil {
		c.in.Close()
		c.cmd.Wait()
	}
}
