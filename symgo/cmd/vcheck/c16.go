package main

import (
	"fmt"
	"strings"

	"symgo/interp"
)

func init() { generators["C16"] = genC16 }

const c16Lib = `
// zzState brings a fresh pool (rules a, b, version 1, symbolic saliences) into
// one of the shapes a history can leave it in: 0 fresh (all instances share the
// master's container), 1 after a removal (every instance has its own container),
// 2 cleared, 3 after an incremental update, 4 after a full update.
func zzState(shape int, sa, sb int64) (*GenginePool, map[string]zzSpec) {
	text := zzRule("a", 1, vnd.SalText(sa)) + zzRule("b", 1, vnd.SalText(sb))
	gp, e := NewGenginePool(1, 2, SortModel, text, zzApis())
	zzMust(e, "pool construction")
	spec := map[string]zzSpec{"a": {1, sa, "da"}, "b": {1, sb, "db"}}
	switch shape {
	case 1:
		zzMust(gp.RemoveRules([]string{"b"}), "removal")
		delete(spec, "b")
	case 2:
		gp.ClearPoolRules()
		spec = map[string]zzSpec{}
	case 3:
		zzMust(gp.UpdatePooledRulesIncremental(zzRule("c", 1, "4")), "incremental update")
		spec["c"] = zzSpec{1, 4, "dc"}
	case 4:
		zzMust(gp.UpdatePooledRules(zzRule("a", 1, vnd.SalText(sa))), "full update")
		delete(spec, "b")
	case 5:
		// a rule moved by an incremental update with a changed (symbolic) salience
		sm := vnd.Int64("sm")
		zzMust(gp.UpdatePooledRulesIncremental(zzRule("a", 1, vnd.SalText(sm))), "incremental update moving a")
		spec["a"] = zzSpec{1, sm, "da"}
	case 6:
		// three rules, the middle name moved
		sm := vnd.Int64("sm")
		zzMust(gp.UpdatePooledRulesIncremental(zzRule("c", 1, "4")), "incremental update")
		zzMust(gp.UpdatePooledRulesIncremental(zzRule("b", 1, vnd.SalText(sm))), "incremental update moving b")
		spec["c"] = zzSpec{1, 4, "dc"}
		spec["b"] = zzSpec{1, sm, "db"}
	}
	return gp, spec
}

type zzSpec struct {
	ver  int64
	sal  int64
	desc string
}

// zzRunOn forces one execution onto instance which (0 = initial, 1 = additional)
// and returns the versions that ran.
func zzRunOn(gp *GenginePool, which int) (map[string]int64, error, map[string]interface{}) {
	for k := range zzLastVer {
		delete(zzLastVer, k)
	}
	zzRunOrder = nil
	var held *gengineWrapper
	if which == 1 {
		held, _ = gp.getGengine()
	}
	err, res := gp.Execute(map[string]interface{}{"req": int64(1)}, true)
	if held != nil {
		gp.putGengineLocked(held)
	}
	vnd.Quiesce()
	out := map[string]int64{}
	for k, v := range zzLastVer {
		out[k] = v
	}
	return out, err, res
}

// zzRunByName forces one execution that resolves rules through the name map (selected / concurrent / DAG)
// onto instance which and returns the versions that ran.
func zzRunByName(gp *GenginePool, which int, model int, names []string) (map[string]int64, error) {
	zzVerMu.Lock()
	for k := range zzLastVer {
		delete(zzLastVer, k)
	}
	zzRunOrder = nil
	zzVerMu.Unlock()
	var held *gengineWrapper
	if which == 1 {
		held, _ = gp.getGengine()
	}
	data := map[string]interface{}{"req": int64(1)}
	var err error
	switch model {
	case 0:
		err, _ = gp.ExecuteSelectedRules(data, names)
	case 1:
		err, _ = gp.ExecuteConcurrent(data)
	default:
		err, _ = gp.ExecuteDAGModel([][]string{names}, data)
	}
	if held != nil {
		gp.putGengineLocked(held)
	}
	vnd.Quiesce()
	out := map[string]int64{}
	zzVerMu.Lock()
	for k, v := range zzLastVer {
		out[k] = v
	}
	zzVerMu.Unlock()
	return out, err
}

// zzCheckPool: queries and executions on every instance agree with spec / model.
func zzCheckPool(gp *GenginePool, spec map[string]zzSpec, model int) {
	vnd.Assert(gp.GetExecModel() == model, "the execution model query answers the denoted model")
	vnd.Assert(gp.GetRulesNumber() == len(spec), "the rule count query agrees with the denoted set")
	names := []string{"a", "b", "c", "x", "zz"}
	ex := gp.IsExist(names)
	for k, n := range names {
		want, has := spec[n]
		vnd.Assert(ex[k] == has, "the existence query agrees with the denoted set")
		sal, e1 := gp.GetRuleSalience(n)
		desc, e2 := gp.GetRuleDesc(n)
		vnd.Assert((e1 == nil) == has && (e2 == nil) == has, "salience / description queries succeed exactly for installed rules")
		if has && e1 == nil && e2 == nil {
			vnd.Assert(sal == want.sal, "the salience query answers the current salience")
			vnd.Assert(desc == want.desc, "the description query answers the current description")
		}
	}
	for which := 0; which < 2; which++ {
		got, err, res := zzRunOn(gp, which)
		vnd.Assert(len(got) == len(spec), "an execution on every instance runs exactly the denoted set")
		for n, want := range spec {
			vnd.Assert(got[n] == want.ver, "an execution on every instance runs the denoted version of each rule")
		}
		if len(spec) == 0 {
			vnd.Assert(len(res) == 0, "an empty pool runs nothing")
			_ = err
		} else {
			vnd.Assert(err == nil, "the execution succeeds")
			for k := 0; k+1 < len(zzRunOrder); k++ {
				vnd.Assert(spec[zzRunOrder[k]].sal >= spec[zzRunOrder[k+1]].sal, "sorted by the current saliences")
			}
		}
	}
	// the models that resolve rules by name see the same set (one model per instance to bound the work)
	if len(spec) > 0 {
		var all []string
		for n := range spec {
			all = append(all, n)
		}
		for i := 1; i < len(all); i++ { // a fixed order, whatever the map iteration order
			for j := i; j > 0 && all[j] < all[j-1]; j-- {
				all[j], all[j-1] = all[j-1], all[j]
			}
		}
		for which := 0; which < 2; which++ {
			got, err := zzRunByName(gp, which, which, all)
			vnd.Assert(err == nil, "the by-name execution succeeds")
			vnd.Assert(len(got) == len(spec), "a by-name execution on every instance runs exactly the denoted set")
			for n, want := range spec {
				vnd.Assert(got[n] == want.ver, "a by-name execution on every instance runs the denoted version of each rule")
			}
		}
	}
	// the pool is whole again: both instances are back
	vnd.Assert(len(zzFree(gp))+len(zzAdd(gp)) == 2, "every instance was handed back")
}
`

func genC16(tier string, seed int64) (*Family, error) {
	fam := &Family{
		Prop: "C16", Files: map[string]string{},
		Bounds: map[string]interface{}{"pool": "min 1, max 2 (one initial and one additional instance)", "installed_rules_before_the_step": "0..3", "pre_state_shapes": "fresh, after removal, cleared, after incremental update, after full update, after an incremental update that moved a rule (two and three rules)", "operations": "full update, incremental update (new / existing / both), removal (existing, absent, all), clear, model change (symbolic model)"},
		Cfg:    interp.Config{MaxSteps: 8_000_000},
		Functions: []string{"engine.GenginePool).UpdatePooledRules", "engine.GenginePool).UpdatePooledRulesIncremental", "engine.GenginePool).RemoveRules", "engine.GenginePool).ClearPoolRules",
			"engine.GenginePool).SetExecModel", "engine.GenginePool).IsExist", "engine.GenginePool).GetRulesNumber", "engine.GenginePool).GetRuleSalience", "engine.GenginePool).GetRuleDesc", "engine.GenginePool).GetExecModel", "engine.GenginePool).Execute"},
	}
	fam.Assumptions = []string{
		"inductive step over pool states: the pre-state is one of the seven shapes a history can leave the pool in (instances sharing the master's container, instances with their own containers, cleared, ...) with symbolic saliences; one management operation is applied; queries and an execution forced onto each instance must agree with the denoted set",
		"an execution is forced onto the additional instance by holding the initial one (harness inside package engine)",
		"two-step sequences cover clear followed by each update kind",
	}
	fam.Outside = []string{"pools with more than 2 instances", "management calls concurrent with executions (C07, C19)"}
	var b strings.Builder
	b.WriteString(c16Lib)
	shapes := []string{"fresh", "removed", "cleared", "incremented", "fullupdated", "moved", "moved3"}
	type op struct{ id, code string }
	ops := []op{
		{"full", "\tq := vnd.Int64(\"q\")\n\tzzMust(gp.UpdatePooledRules(zzRule(\"b\", 2, vnd.SalText(q))+zzRule(\"x\", 2, \"1\")), \"full update\")\n\tspec = map[string]zzSpec{\"b\": {2, q, \"db\"}, \"x\": {2, 1, \"dx\"}}\n"},
		{"incr_new", "\tq := vnd.Int64(\"q\")\n\tvnd.ExploreMapOrder(true)\n\tzzMust(gp.UpdatePooledRulesIncremental(zzRule(\"x\", 2, vnd.SalText(q))), \"incremental update\")\n\tvnd.ExploreMapOrder(false)\n\tspec[\"x\"] = zzSpec{2, q, \"dx\"}\n"},
		{"incr_existing", "\tq := vnd.Int64(\"q\")\n\tzzMust(gp.UpdatePooledRulesIncremental(zzRule(\"a\", 2, vnd.SalText(q))), \"incremental update\")\n\tspec[\"a\"] = zzSpec{2, q, \"da\"}\n"},
		{"incr_both", "\tq := vnd.Int64(\"q\")\n\tvnd.ExploreMapOrder(true)\n\tzzMust(gp.UpdatePooledRulesIncremental(zzRule(\"a\", 2, vnd.SalText(q))+zzRule(\"x\", 2, \"6\")), \"incremental update\")\n\tvnd.ExploreMapOrder(false)\n\tspec[\"a\"] = zzSpec{2, q, \"da\"}\n\tspec[\"x\"] = zzSpec{2, 6, \"dx\"}\n"},
		{"incr_batch3", "\tq := vnd.Int64(\"q\")\n\tvnd.ExploreMapOrder(true)\n\tzzMust(gp.UpdatePooledRulesIncremental(zzRule(\"x\", 2, \"6\")+zzRule(\"b\", 2, vnd.SalText(q))+zzRule(\"zz\", 2, \"-3\")), \"incremental update\")\n\tvnd.ExploreMapOrder(false)\n\tspec[\"x\"] = zzSpec{2, 6, \"dx\"}\n\tspec[\"b\"] = zzSpec{2, q, \"db\"}\n\tspec[\"zz\"] = zzSpec{2, -3, \"dzz\"}\n"},
		{"incr_b", "\tq := vnd.Int64(\"q\")\n\tzzMust(gp.UpdatePooledRulesIncremental(zzRule(\"b\", 2, vnd.SalText(q))), \"incremental update\")\n\tspec[\"b\"] = zzSpec{2, q, \"db\"}\n"},
		{"remove_a", "\terr := gp.RemoveRules([]string{\"a\"})\n\tif len(spec) > 0 {\n\t\tvnd.Assert(err == nil, \"removal succeeds\")\n\t}\n\tdelete(spec, \"a\")\n"},
		{"remove_absent", "\t_ = gp.RemoveRules([]string{\"zz\"})\n"},
		{"remove_all", "\t_ = gp.RemoveRules([]string{\"a\", \"b\", \"c\", \"a\", \"zz\"})\n\tspec = map[string]zzSpec{}\n"},
		{"clear", "\tgp.ClearPoolRules()\n\tspec = map[string]zzSpec{}\n"},
		{"setmodel", "\tm := vnd.Int(\"m\")\n\terr := gp.SetExecModel(m)\n\tvnd.Assert(vnd.Iff(err == nil, vnd.And(m >= 1, m <= 4)), \"exactly the four models are accepted\")\n\tif err == nil {\n\t\tmodel = m\n\t}\n"},
		{"rejected_full", "\terr := gp.UpdatePooledRules(\"rule \\\"x\\\" begin\")\n\tvnd.Assert(err != nil, \"a broken text is rejected\")\n"},
		{"rejected_incr", "\terr := gp.UpdatePooledRulesIncremental(\"rule \\\"x\\\" begin\")\n\tvnd.Assert(err != nil, \"a broken text is rejected\")\n"},
	}
	for si, sh := range shapes {
		for _, o := range ops {
			heavy := sh == "incremented" || sh == "moved" || sh == "moved3"
			if o.id == "incr_batch3" && (sh == "moved3" || (heavy && tier != "thorough")) {
				continue // three more rules over a three-rule pre-state with explored merge orders: > 10 min
			}
			if o.id == "incr_both" && (sh == "moved3" || sh == "incremented") && tier != "thorough" {
				o.code = strings.ReplaceAll(strings.ReplaceAll(o.code, "\tvnd.ExploreMapOrder(true)\n", ""), "\tvnd.ExploreMapOrder(false)\n", "")
			}
			name := fmt.Sprintf("S_%s_%s", sh, o.id)
			modelCheck := "\tzzCheckPool(gp, spec, model)\n"
			if o.id == "setmodel" {
				// executions under a symbolic model are the business of the engine checks; compare queries only
				modelCheck = "\tvnd.Assert(gp.GetExecModel() == model, \"the execution model query answers the denoted model\")\n\tif model == SortModel {\n\t\tzzCheckPool(gp, spec, model)\n\t}\n"
			}
			fmt.Fprintf(&b, "\n// %s pool, then %s\nfunc %s() {\n\tsa, sb := vnd.Int64(\"sa\"), vnd.Int64(\"sb\")\n\tgp, spec := zzState(%d, sa, sb)\n\tmodel := SortModel\n\t_ = model\n%s\tvnd.Reach(\"executed\")\n%s}\n", sh, o.id, name, si, o.code, modelCheck)
			fam.Instances = append(fam.Instances, Instance{Func: name, Stratum: sh + "/" + strings.SplitN(o.id, "_", 2)[0], Desc: sh + " pool, then " + o.id, Expect: []string{"executed"}})
		}
	}
	// sequences: clear, then each way back into service, then more
	b.WriteString(`
func H_clear_full_incr_remove() {
	sa, sb := vnd.Int64("sa"), vnd.Int64("sb")
	gp, _ := zzState(0, sa, sb)
	gp.ClearPoolRules()
	zzCheckPool(gp, map[string]zzSpec{}, SortModel)
	q := vnd.Int64("q")
	zzMust(gp.UpdatePooledRules(zzRule("x", 2, vnd.SalText(q))), "full update after clear")
	zzCheckPool(gp, map[string]zzSpec{"x": {2, q, "dx"}}, SortModel)
	zzMust(gp.UpdatePooledRulesIncremental(zzRule("y", 3, "2")), "incremental update")
	zzMust(gp.RemoveRules([]string{"x"}), "removal")
	zzCheckPool(gp, map[string]zzSpec{"y": {3, 2, "dy"}}, SortModel)
	vnd.Reach("executed")
}

func H_clear_incr_clear_incr() {
	sa, sb := vnd.Int64("sa"), vnd.Int64("sb")
	gp, _ := zzState(0, sa, sb)
	gp.ClearPoolRules()
	q := vnd.Int64("q")
	zzMust(gp.UpdatePooledRulesIncremental(zzRule("x", 2, vnd.SalText(q))), "incremental update after clear")
	zzCheckPool(gp, map[string]zzSpec{"x": {2, q, "dx"}}, SortModel)
	gp.ClearPoolRules()
	gp.ClearPoolRules()
	zzMust(gp.UpdatePooledRulesIncremental(zzRule("y", 3, "2")+zzRule("x", 3, "1")), "incremental update after clear")
	zzCheckPool(gp, map[string]zzSpec{"y": {3, 2, "dy"}, "x": {3, 1, "dx"}}, SortModel)
	vnd.Reach("executed")
}
`)
	b.WriteString(`
// round 7 (seed C16-m13): a cleared pool brought back by a two-rule incremental update, then single rules
// re-sent incrementally at the same and at a symbolic salience, then a third rule added and one removed
func H_clear_incr_two_then_resend() {
	gp, _ := zzState(0, 3, 2)
	gp.ClearPoolRules()
	zzMust(gp.UpdatePooledRulesIncremental(zzRule("a", 1, "10")+zzRule("b", 1, "5")), "incremental update after clear")
	zzCheckPool(gp, map[string]zzSpec{"a": {1, 10, "da"}, "b": {1, 5, "db"}}, SortModel)
	zzMust(gp.UpdatePooledRulesIncremental(zzRule("b", 2, "5")), "lower rule re-sent at the same salience")
	zzCheckPool(gp, map[string]zzSpec{"a": {1, 10, "da"}, "b": {2, 5, "db"}}, SortModel)
	q := vnd.Int64("q")
	zzMust(gp.UpdatePooledRulesIncremental(zzRule("a", 3, vnd.SalText(q))), "upper rule re-sent at a symbolic salience")
	zzCheckPool(gp, map[string]zzSpec{"a": {3, q, "da"}, "b": {2, 5, "db"}}, SortModel)
	zzMust(gp.UpdatePooledRulesIncremental(zzRule("x", 4, "7")), "a third rule added")
	zzCheckPool(gp, map[string]zzSpec{"a": {3, q, "da"}, "b": {2, 5, "db"}, "x": {4, 7, "dx"}}, SortModel)
	zzMust(gp.RemoveRules([]string{"b"}), "removal")
	zzCheckPool(gp, map[string]zzSpec{"a": {3, q, "da"}, "x": {4, 7, "dx"}}, SortModel)
	vnd.Reach("executed")
}
`)
	fam.Instances = append(fam.Instances, Instance{Func: "H_clear_incr_two_then_resend", Stratum: "sequence", Desc: "clear, two-rule incremental update, rules re-sent incrementally, addition, removal", Expect: []string{"executed"}})
	b.WriteString(`
// a full update denotes exactly the rule set of its text, also when that very text was in force before an
// incremental update changed the set (text in force from construction, and from a full update)
func H_full_incr_same_full() {
	text := zzRule("a", 1, "9") + zzRule("b", 1, "5")
	for how := 0; how < 2; how++ {
		var gp *GenginePool
		if how == 0 {
			g, e := NewGenginePool(1, 2, SortModel, text, zzApis())
			zzMust(e, "pool construction")
			gp = g
		} else {
			gp, _ = zzState(0, 3, 2)
			zzMust(gp.UpdatePooledRules(text), "full update")
		}
		q := vnd.Int64("q")
		zzMust(gp.UpdatePooledRulesIncremental(zzRule("a", 2, vnd.SalText(q))+zzRule("x", 2, "1")), "incremental update")
		zzCheckPool(gp, map[string]zzSpec{"a": {2, q, "da"}, "b": {1, 5, "db"}, "x": {2, 1, "dx"}}, SortModel)
		zzMust(gp.UpdatePooledRules(text), "the earlier full text again")
		zzCheckPool(gp, map[string]zzSpec{"a": {1, 9, "da"}, "b": {1, 5, "db"}}, SortModel)
	}
	vnd.Reach("executed")
}
`)
	fam.Instances = append(fam.Instances, Instance{Func: "H_full_incr_same_full", Stratum: "sequence", Desc: "full text in force, incremental update, the same full text again", Expect: []string{"executed"}})
	fam.Instances = append(fam.Instances, Instance{Func: "H_clear_full_incr_remove", Stratum: "sequence", Desc: "clear, full update, incremental update, removal", Expect: []string{"executed"}},
		Instance{Func: "H_clear_incr_clear_incr", Stratum: "sequence", Desc: "clear, incremental update, clear twice, incremental update", Expect: []string{"executed"}})
	// a six-rule pool (saliences 10..5) and an incremental update with a symbolic salience: the
	// insertion position comes from a binary search with several probes
	for _, v := range []struct{ id, name, desc string }{
		{"six_add", "x", "a seventh rule added"},
		{"six_move", "c", "the third rule re-submitted with another salience"},
	} {
		name := "H_" + v.id
		fmt.Fprintf(&b, `
// six-rule pool, %s with a symbolic salience
func %s() {
	sals := map[string]int64{"a": 10, "b": 9, "c": 8, "d": 7, "e": 6, "f": 5}
	text := ""
	for _, n := range []string{"a", "b", "c", "d", "e", "f"} {
		text += zzRule(n, 1, strconv.Itoa(int(sals[n])))
	}
	gp, e := NewGenginePool(1, 2, SortModel, text, zzApis())
	zzMust(e, "pool construction")
	q := vnd.Int64("q")
	zzMust(gp.UpdatePooledRulesIncremental(zzRule(%q, 2, vnd.SalText(q))), "incremental update")
	sals[%q] = q
	vnd.Assert(gp.GetRulesNumber() == len(sals), "the rule count query agrees with the denoted set")
	sq, e1 := gp.GetRuleSalience(%q)
	vnd.Assert(e1 == nil && sq == q, "the salience query answers the current salience")
	for which := 0; which < 2; which++ {
		got, err, _ := zzRunOn(gp, which)
		vnd.Assert(err == nil, "the execution succeeds")
		vnd.Assert(len(got) == len(sals) && len(zzRunOrder) == len(sals), "an execution on every instance runs exactly the denoted set")
		vnd.Assert(got[%q] == 2, "the new version runs")
		for k := 0; k+1 < len(zzRunOrder); k++ {
			vnd.Assert(sals[zzRunOrder[k]] >= sals[zzRunOrder[k+1]], "sorted by the current saliences")
		}
	}
	vnd.Reach("executed")
}
`, v.desc, name, v.name, v.name, v.name, v.name)
		fam.Instances = append(fam.Instances, Instance{Func: name, Stratum: "larger-set", Desc: "six-rule pool, " + v.desc, Expect: []string{"executed"}})
	}
	b.WriteString(`
// every rule removed by name: executions on every instance run nothing and hand out nothing of earlier requests
func H_remove_all_then_results() {
	text := "rule \"a\" salience 2 begin\n ver(\"a\", 1)\n return 11\nend\nrule \"b\" salience 1 begin\n ver(\"b\", 1)\n return 22\nend\n"
	gp, e := NewGenginePool(1, 2, SortModel, text, zzApis())
	zzMust(e, "pool construction")
	for which := 0; which < 2; which++ {
		_, _, res := zzRunOn(gp, which)
		vnd.Assert(len(res) == 2, "both rules return on every instance")
	}
	zzMust(gp.RemoveRules([]string{"a", "b"}), "removal of every rule")
	vnd.Assert(gp.GetRulesNumber() == 0, "the rule count query agrees with the denoted set")
	for which := 0; which < 2; which++ {
		got, _, res := zzRunOn(gp, which)
		vnd.Assert(len(got) == 0, "an empty pool runs nothing")
		vnd.Assert(len(res) == 0, "an empty pool hands out no results")
		for model := 0; model < 2; model++ {
			var held *gengineWrapper
			if which == 1 {
				held, _ = gp.getGengine()
			}
			var r2 map[string]interface{}
			if model == 0 {
				_, r2 = gp.ExecuteRulesWithMultiInputWithSpecifiedEM(map[string]interface{}{"req": int64(1)})
			} else {
				_, r2 = gp.ExecuteConcurrent(map[string]interface{}{"req": int64(1)})
			}
			if held != nil {
				gp.putGengineLocked(held)
			}
			vnd.Quiesce()
			vnd.Assert(len(r2) == 0, "an empty pool hands out no results")
		}
	}
	vnd.Reach("executed")
}
`)
	fam.Instances = append(fam.Instances, Instance{Func: "H_remove_all_then_results", Stratum: "sequence", Desc: "returning rules, then every rule removed by name", Expect: []string{"executed"}})
	// after a model change the *SpecifiedEM entry points follow the new model
	for m := 1; m <= 4; m++ {
		for _, ep := range []struct{ id, call string }{
			{"multi", "gp.ExecuteRulesWithMultiInputWithSpecifiedEM(data)"},
			{"reqresp", "gp.ExecuteRulesWithSpecifiedEM(\"f0\", f[0], \"f1\", f[1])"},
			{"selected", "gp.ExecuteSelectedWithSpecifiedEM(data, []string{\"r1\", \"r2\", \"r0\"})"},
		} {
			var oracle string
			switch m {
			case 1:
				oracle = "\tcheckSorted(tr, n, allTrue(n), s, f, true, err)\n"
			case 2:
				oracle = "\tcheckTwoStage(tr, n, 3, 0, false, false, s, f, true, err)\n"
			case 3:
				oracle = "\tcheckTwoStage(tr, n, 1, 2, true, false, s, f, false, err)\n"
			default:
				oracle = "\tcheckTwoStage(tr, n, 2, 1, false, true, s, f, false, err)\n"
			}
			name := fmt.Sprintf("M_model%d_%s", m, ep.id)
			inject := "\tdata := map[string]interface{}{\"f0\": f[0], \"f1\": f[1], \"f2\": f[2]}\n\t_ = data\n"
			if ep.id == "reqresp" {
				inject += "\tf[2] = false\n"
			}
			fmt.Fprintf(&b, "\n// executions follow model %d after SetExecModel (%s)\nfunc %s() {\n\tn := 3\n\ts := symSal(n)\n\tf := symFlags(\"f\", n)\n\tapis := map[string]interface{}{\"ev\": func(x string) { vnd.Event(x) }, \"one\": int64(1), \"zero\": int64(0), \"f2\": false}\n\tvnd.ExploreMapOrder(true)\n\tgp, e := NewGenginePool(1, 2, SortModel, rulesText(n, s), apis)\n\tvnd.ExploreMapOrder(false)\n\tzzMust(e, \"pool construction\")\n\tzzMust(gp.SetExecModel(%d), \"model change\")\n\tvnd.Assert(gp.GetExecModel() == %d, \"the model query answers the new model\")\n%s\terr, _ := %s\n\tvnd.Event(\"ret\")\n\tvnd.Quiesce()\n\tvnd.Reach(\"executed\")\n\ttr := vnd.Trace()\n%s}\n",
				m, ep.id, name, m, m, inject, ep.call, oracle)
			fam.Instances = append(fam.Instances, Instance{Func: name, Stratum: fmt.Sprintf("model/%d", m), Desc: fmt.Sprintf("executions follow model %d via %s", m, ep.id), Expect: []string{"executed"}})
		}
	}
	finishPoolFamily(fam, "C16", b.String())
	fam.Files[repoDir+"/engine/zz_vh_hlib.go"] = libFile("engine")
	return fam, nil
}
