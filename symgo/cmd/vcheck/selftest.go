package main

import "symgo/interp"

func init() { generators["SELFTEST"] = genSelftest }

// genSelftest exercises the interpreter's own models (channels, sync, atomics,
// builders, reflect) with assertions that must hold both symbolically and on
// the native build (sampled path validation). It is not a property check.
func genSelftest(tier string, seed int64) (*Family, error) {
	pkg := "selftest"
	fam := &Family{Prop: "SELFTEST", PkgPath: modPath + "/zz_verif/" + pkg, Files: map[string]string{}, Bounds: map[string]interface{}{}, Cfg: interp.Config{MaxSteps: 2_000_000}}
	src := `package selftest

import (
	"bytes"
	"fmt"
	"reflect"
	"strings"
	"sync"
	"sync/atomic"

	"github.com/bilibili/gengine/zz_verif/vnd"
)

func T_channels() {
	ch := make(chan int64, 1)
	done := make(chan struct{})
	x := vnd.Int64("x")
	var got int64
	go func() {
		got = <-ch
		close(done)
	}()
	ch <- x
	<-done
	vnd.Assert(got == x, "value through a channel")
	_, ok := <-done
	vnd.Assert(!ok, "closed channel yields zero, false")
	un := make(chan int)
	go func() { un <- 7 }()
	v := <-un
	vnd.Assert(v == 7, "unbuffered rendezvous")
	vnd.Reach("end")
}

func T_select() {
	c1 := make(chan int64, 1)
	c2 := make(chan int64, 1)
	var nilch chan int64
	x := vnd.Int64("x")
	c2 <- x
	select {
	case v := <-c1:
		vnd.Assert(v == -1 && false, "an empty channel is not selected")
	case v, ok := <-c2:
		vnd.Assert(ok && v == x, "select receives from the ready channel")
	case <-nilch:
		vnd.Assert(false, "a nil channel is never ready")
	}
	taken := 0
	select {
	case <-c1:
		taken = 1
	default:
		taken = 2
	}
	vnd.Assert(taken == 2, "default when nothing is ready")
	select {
	case c1 <- 4:
		taken = 3
	case <-c2:
		taken = 4
	}
	vnd.Assert(taken == 3, "send case with buffer room")
	done := make(chan struct{})
	fin := make(chan int64, 1)
	go func() {
		fin <- <-c1 + 1
		close(done)
	}()
	var r int64
	select {
	case <-done:
		r = <-fin
	case <-nilch:
	}
	vnd.Assert(r == 5, "a blocking select is woken by a close")
	_, ok := <-done
	vnd.Assert(!ok, "closed")
	vnd.Reach("end")
}

func T_sync() {
	var once sync.Once
	n := 0
	for i := 0; i < 3; i++ {
		once.Do(func() { n++ })
	}
	vnd.Assert(n == 1, "once")
	var c int64
	var wg sync.WaitGroup
	for i := 0; i < 3; i++ {
		wg.Add(1)
		go func() {
			defer wg.Done()
			atomic.AddInt64(&c, 2)
		}()
	}
	wg.Wait()
	vnd.Assert(atomic.LoadInt64(&c) == 6, "atomic add")
	vnd.Assert(atomic.CompareAndSwapInt64(&c, 6, 9) && c == 9, "cas")
	p := sync.Pool{New: func() interface{} { return new(int) }}
	a := p.Get().(*int)
	*a = 5
	p.Put(a)
	vnd.Assert(p.Get() != nil, "pool")
	var rw sync.RWMutex
	rw.RLock()
	rw.RUnlock()
	rw.Lock()
	ok := rw.TryLock()
	rw.Unlock()
	vnd.Assert(!ok, "trylock on a held lock fails")
	vnd.Reach("end")
}

func T_text() {
	var sb strings.Builder
	sb.WriteString("ab")
	sb.WriteByte('c')
	fmt.Fprintf(&sb, "-%d-%s", 12, "x")
	vnd.Assert(sb.String() == "abc-12-x" && sb.Len() == 8, "strings.Builder")
	var bb bytes.Buffer
	bb.WriteString("q")
	fmt.Fprint(&bb, 1, 2)
	vnd.Assert(bb.String() == "q1 2", "bytes.Buffer")
	vnd.Assert(strings.TrimPrefix(strings.Fields(" a  b ")[1]+"z", "b") == "z", "natives")
	vnd.Reach("end")
}

type S struct {
	A int8
	B []int64
	M map[string]int
}

func (s *S) Get(k int) int64 { return s.B[k] }

func T_reflect() {
	x := vnd.Int8("x")
	s := &S{A: x, B: make([]int64, 2, 4), M: map[string]int{"k": 1}}
	v := reflect.ValueOf(s)
	vnd.Assert(v.Kind() == reflect.Ptr && v.Elem().Kind() == reflect.Struct && v.Elem().NumField() == 3, "kinds")
	vnd.Assert(v.Elem().FieldByName("A").Int() == int64(x), "Int widens")
	vnd.Assert(v.Elem().Field(1).Len() == 2 && v.Elem().Field(1).Cap() == 4, "len/cap")
	v.Elem().Field(1).Index(1).SetInt(9)
	vnd.Assert(s.B[1] == 9, "set through Index")
	r := v.MethodByName("Get").Call([]reflect.Value{reflect.ValueOf(1)})
	vnd.Assert(len(r) == 1 && r[0].Int() == 9, "method call")
	m := v.Elem().FieldByName("M")
	m.SetMapIndex(reflect.ValueOf("z"), reflect.ValueOf(3))
	vnd.Assert(s.M["z"] == 3 && m.MapIndex(reflect.ValueOf("nope")).IsValid() == false, "map ops")
	vnd.Assert(len(m.MapKeys()) == 2, "map keys")
	c := reflect.ValueOf(int64(300)).Convert(reflect.TypeOf(uint8(0)))
	vnd.Assert(c.Uint() == 44, "convert truncates")
	sl := reflect.Append(reflect.MakeSlice(reflect.TypeOf([]int64{}), 0, 2), reflect.ValueOf(int64(5)))
	vnd.Assert(sl.Len() == 1 && sl.Index(0).Int() == 5, "make/append")
	vnd.Assert(reflect.TypeOf(s).String() == "*selftest.S" && reflect.TypeOf(s.B).Elem().Kind() == reflect.Int64, "type strings")
	vnd.Assert(reflect.ValueOf(nil).IsValid() == false && reflect.ValueOf("s").String() == "s" && reflect.ValueOf(1).String() == "<int Value>", "string forms")
	func() {
		defer func() {
			e := recover()
			vnd.Assert(e != nil, "Int on a string panics")
		}()
		reflect.ValueOf("s").Int()
	}()
	vnd.Reach("end")
}
`
	fam.Files[repoDir+"/zz_verif/"+pkg+"/h.go"] = src
	for _, f := range []string{"T_channels", "T_select", "T_sync", "T_text", "T_reflect"} {
		fam.Instances = append(fam.Instances, Instance{Func: f, Stratum: "model", Desc: f, Expect: []string{"end"}})
	}
	fam.TestFile = repoDir + "/zz_verif/" + pkg + "/zz_replay_test.go"
	fam.TestSrc = testFile(pkg, fam.Instances)
	return fam, nil
}
