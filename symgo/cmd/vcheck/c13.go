package main

import (
	"fmt"
	"strings"

	"symgo/interp"
)

func init() {
	generators["C13"] = genC13
	generators["C14"] = genC14
	generators["C15"] = genC15
}

func genC13(tier string, seed int64) (*Family, error) {
	pkg := "c13"
	fam := &Family{
		Prop: "C13", BothOrders: true, PkgPath: modPath + "/zz_verif/" + pkg, Files: map[string]string{},
		Bounds:    map[string]interface{}{"rules": 4, "layers": "<= 3 (thorough 4)", "layer_width": "<= 3", "shapes": "empty layers, unknown names, names repeated inside a layer"},
		Cfg:       interp.Config{MaxSteps: 3_000_000, TrackAllocs: []string{"*"}, TrackFields: []string{"engine.Gengine.returnResult"}},
		Functions: []string{"engine.Gengine).ExecuteDAGModel"},
	}
	fam.Assumptions = []string{"each rule appears in at most one layer (repeats only inside a layer)", "saliences concrete (the DAG model ignores them)", "schedule handling as in C05"}
	fam.Outside = []string{"a rule named in several layers", "more layers / wider layers than the bound"}
	dags := [][][]string{
		{{"r0"}},
		{{"r0"}, {"r1"}},
		{{"r0", "r1"}, {"r2"}},
		{{"r0"}, {"r1", "r2"}},
		{{"r0", "r1"}, {"r2", "r3"}},
		{{"r0"}, {"r1"}, {"r2"}},
		{{"r0"}, {}, {"r1"}},
		{{}, {"r3"}},
		{{"zz", "r0"}, {"r1", "yy"}},
		{{"zz"}, {"r2"}},
		{{"r1", "r1"}, {"r0"}},
		{{"r2"}, {"zz", "yy"}, {"r0", "r3"}},
		{{"zz"}},
	}
	if tier == "thorough" {
		dags = append(dags, [][]string{{"r0", "r1", "r2"}, {"r3"}}, [][]string{{"r3"}, {"r2"}, {"r1"}, {"r0"}}, [][]string{{"r0", "r0", "r1"}, {"r2", "r2"}}, [][]string{{"r0"}, {"r1", "r2", "r3"}})
	}
	var b strings.Builder
	for k, d := range dags {
		var dl, il []string
		for _, layer := range d {
			dl = append(dl, strings.TrimPrefix(goStrings(layer), "[]string"))
			var idx []string
			for _, nm := range layer {
				if strings.HasPrefix(nm, "r") {
					idx = append(idx, string(nm[1]))
				}
			}
			il = append(il, "{"+strings.Join(idx, ", ")+"}")
		}
		name := fmt.Sprintf("H_DAG_%d", k)
		desc := fmt.Sprintf("DAG %v", d)
		fmt.Fprintf(&b, "\n// %s\nfunc %s() {\n\tn := 4\n\ts := fixedSal(n)\n\tf := symFlags(\"f\", n)\n\trb := build(n, s, f)\n\teng := engine.NewGengine()\n\terr := eng.ExecuteDAGModel(rb, [][]string{%s})\n\tvnd.Event(\"ret\")\n\tvnd.Quiesce()\n\tvnd.Reach(\"executed\")\n\tcheckDAG(n, [][]int{%s}, f, err)\n}\n",
			desc, name, strings.Join(dl, ", "), strings.Join(il, ", "))
		fam.Instances = append(fam.Instances, Instance{Func: name, Stratum: fmt.Sprintf("layers=%d", len(d)), Desc: desc, Expect: []string{"executed"}})
		if k >= 1 && k <= 5 {
			// the same layering with rules that fail at rule level (no statement-level recover involved)
			src := b.String()
			at := strings.LastIndex(src, "\n// "+desc+"\nfunc "+name+"()")
			variant := strings.Replace(src[at:], "func "+name+"()", "func "+name+"_rulelevel()", 1)
			variant = strings.Replace(variant, "rb := build(n, s, f)", "rb := buildText(newDC(f), rulesTextOpt(n, s, \"r\"))", 1)
			b.WriteString(variant)
			fam.Instances = append(fam.Instances, Instance{Func: name + "_rulelevel", Stratum: fmt.Sprintf("layers=%d:rule-level-fault", len(d)), Desc: desc + ", rules failing at rule level", Expect: []string{"executed"}})
			if k <= 3 {
				// and with rules that fail while evaluating the expression of a top-level return
				v2 := strings.Replace(src[at:], "func "+name+"()", "func "+name+"_returnfault()", 1)
				v2 = strings.Replace(v2, "rb := build(n, s, f)", "rb := buildText(returnFaultDC(n, f), returnFaultText(n, s))", 1)
				b.WriteString(v2)
				fam.Instances = append(fam.Instances, Instance{Func: name + "_returnfault", Stratum: fmt.Sprintf("layers=%d:return-fault", len(d)), Desc: desc + ", rules failing in the expression of a return", Expect: []string{"executed"}})
			}
		}
	}
	b.WriteString(`
// a failed DAG call leaves nothing behind: the next call on the same engine runs all its layers
func H_DAG_after_failed_call() {
	n := 4
	s := fixedSal(n)
	f := symFlags("f", n)
	rb := build(n, s, []bool{false, true, false, false})
	eng := engine.NewGengine()
	err := eng.ExecuteDAGModel(rb, [][]string{{"r0", "r1"}, {"r2"}})
	vnd.Event("ret0")
	vnd.Quiesce()
	vnd.Assert(err != nil && vnd.Count("r2.s") == 0, "the first call fails in its first layer")
	addFlags(rb.Dc, "f", f)
	c := countsOf(n)
	err = eng.ExecuteDAGModel(rb, [][]string{{"r0"}, {"r1", "r2"}, {"r3"}})
	vnd.Event("ret")
	vnd.Quiesce()
	vnd.Reach("executed")
	started := func(i int) bool { return vnd.Count(sname(i))-c[i] == 1 }
	vnd.Assert(started(0), "the first layer runs")
	vnd.Assert(vnd.Iff(started(1) && started(2), !f[0]), "the second layer starts iff the first one did not fail")
	vnd.Assert(vnd.Iff(started(3), vnd.And(!f[0], vnd.And(!f[1], !f[2]))), "the third layer starts iff no earlier layer failed")
	vnd.Assert(vnd.Iff(err != nil, vnd.Or(f[0], vnd.And(!f[0], vnd.Or(f[1], vnd.Or(f[2], f[3]))))), "error iff a rule of a started layer failed")
}
`)
	fam.Instances = append(fam.Instances, Instance{Func: "H_DAG_after_failed_call", Stratum: "sequence", Desc: "a DAG call after a failed DAG call on the same engine", Expect: []string{"executed"}})
	// empty DAG
	b.WriteString("\nfunc H_DAG_empty() {\n\tn := 2\n\trb := build(n, fixedSal(n), symFlags(\"f\", n))\n\teng := engine.NewGengine()\n\terr := eng.ExecuteDAGModel(rb, nil)\n\tvnd.Reach(\"executed\")\n\tvnd.Assert(err == nil, \"an empty DAG runs nothing and succeeds\")\n\tvnd.Assert(len(vnd.Trace()) == 0, \"nothing runs\")\n}\n")
	fam.Instances = append(fam.Instances, Instance{Func: "H_DAG_empty", Stratum: "layers=0", Desc: "empty DAG", Expect: []string{"executed"}})
	finishFamily(fam, pkg, b.String())
	return fam, nil
}

// tagReturnOracle adapts an oracle expression of the second-call instances to a whole-trace check.
func tagReturnOracle(o string) string { return o }

func genC14(tier string, seed int64) (*Family, error) {
	pkg := "c14"
	fam := &Family{
		Prop: "C14", PkgPath: modPath + "/zz_verif/" + pkg, Files: map[string]string{},
		Bounds: map[string]interface{}{"rules": "1..3 (thorough 4)", "tag_setters": "symbolic subset", "failing_subset": "symbolic", "error_policy": "symbolic"},
		Cfg:    interp.Config{MaxSteps: 3_000_000},
		Functions: []string{"engine.Gengine).ExecuteWithStopTagDirect", "engine.Gengine).ExecuteMixModelWithStopTagDirect", "engine.Gengine).ExecuteSelectedRulesWithControlAndStopTag",
			"engine.Gengine).ExecuteSelectedRulesWithControlAndStopTagAsGivenSortedName", "core.SetAttributeValue"},
	}
	fam.Assumptions = []string{"differential part assumes pairwise distinct saliences (with ties two runs may legitimately break them differently)", "a rule sets the tag through the injected *Stag (stag.StopTag = true) before its possible fault", "differential part: tag variant and plain variant run on two engines over the same symbolic inputs, tag never set"}
	fam.Outside = []string{"a nil *Stag argument (host misuse)"}
	maxN := 3
	if tier == "thorough" {
		maxN = 4
	}
	var b strings.Builder
	pre := func(n int, opts string) string {
		return fmt.Sprintf("\tn := %d\n\ts := symSal(n)\n\tf := symFlags(\"f\", n)\n\tt := symFlags(\"t\", n)\n\tb := vnd.Bool(\"b\")\n\t_ = b\n\tstag := &engine.Stag{}\n\tdc := newDC(f)\n\taddFlags(dc, \"t\", t)\n\tdc.Add(\"stag\", stag)\n\trb := buildText(dc, rulesTextOpt(n, s, %q))\n\teng := engine.NewGengine()\n", n, opts)
	}
	add := func(name, stratum, desc, body string) {
		fmt.Fprintf(&b, "\n// %s\nfunc %s() {\n%s}\n", desc, name, body)
		fam.Instances = append(fam.Instances, Instance{Func: name, Stratum: stratum, Desc: desc, Expect: []string{"executed"}})
	}
	for n := 1; n <= maxN; n++ {
		names := namesLit(n)
		var want []string
		for i := n - 1; i >= 0; i-- {
			want = append(want, fmt.Sprint(i))
		}
		wantLit := "[]int{" + strings.Join(want, ", ") + "}"
		add(fmt.Sprintf("H_Sort_%d", n), "ExecuteWithStopTagDirect", fmt.Sprintf("sort model with stop tag, %d rules", n),
			pre(n, "t")+"\terr := eng.ExecuteWithStopTagDirect(rb, b, stag)\n\tvnd.Reach(\"executed\")\n\tcheckSortedTag(vnd.Trace(), n, allTrue(n), s, t, f, b, err)\n")
		add(fmt.Sprintf("H_Selected_%d", n), "ExecuteSelectedRulesWithControlAndStopTag", fmt.Sprintf("selected sorted with stop tag, %d rules", n),
			pre(n, "t")+"\terr := eng.ExecuteSelectedRulesWithControlAndStopTag(rb, b, stag, "+names+")\n\tvnd.Reach(\"executed\")\n\tcheckSortedTag(vnd.Trace(), n, allTrue(n), s, t, f, b, err)\n")
		add(fmt.Sprintf("H_AsGiven_%d", n), "ExecuteSelectedRulesWithControlAndStopTagAsGivenSortedName", fmt.Sprintf("selected as-given with stop tag, %d rules", n),
			pre(n, "t")+"\terr := eng.ExecuteSelectedRulesWithControlAndStopTagAsGivenSortedName(rb, b, stag, "+names+")\n\tvnd.Reach(\"executed\")\n\tcheckAsGiven(vnd.Trace(), n, "+wantLit+", t, f, b, err)\n")
		// mix: if the first rule sets the tag (or fails) nothing else starts, otherwise plain mix
		add(fmt.Sprintf("H_Mix_%d", n), "ExecuteMixModelWithStopTagDirect", fmt.Sprintf("mix model with stop tag, %d rules", n),
			pre(n, "t")+fmt.Sprintf(`	err := eng.ExecuteMixModelWithStopTagDirect(rb, stag)
	vnd.Event("ret")
	vnd.Quiesce()
	vnd.Reach("executed")
	tr := vnd.Trace()
	ord := startOrder(tr, n)
	if len(ord) == 0 {
		vnd.Assert(false, "at least one rule runs")
		return
	}
	first := ord[0]
	if n == 1 {
		vnd.Assert(vnd.Iff(err != nil, f[first]), "error iff the first rule failed")
		return
	}
	if len(ord) == 1 && n > 1 {
		vnd.Assert(vnd.Or(t[first], f[first]), "the rest is skipped only if the first rule set the tag or failed")
		for j := 0; j < n; j++ {
			vnd.Assert(s[first] >= s[j], "the first rule has the highest salience")
		}
		vnd.Assert(vnd.Iff(err != nil, f[first]), "error iff the first rule failed")
		return
	}
	vnd.Assert(vnd.And(!t[first], !f[first]), "once the first rule set the tag no further rule starts")
	checkTwoStage(tr, n, 1, %d, true, false, s, f, false, err)
`, n-1))
		// differential: tag never set
		for _, d := range []struct{ id, tagCall, plainCall string }{
			{"Sort", "eng.ExecuteWithStopTagDirect(rb, b, stag)", "eng2.Execute(rb2, b)"},
			{"Selected", "eng.ExecuteSelectedRulesWithControlAndStopTag(rb, b, stag, " + names + ")", "eng2.ExecuteSelectedRulesWithControl(rb2, b, " + names + ")"},
			{"AsGiven", "eng.ExecuteSelectedRulesWithControlAndStopTagAsGivenSortedName(rb, b, stag, " + names + ")", "eng2.ExecuteSelectedRulesWithControlAsGivenSortedName(rb2, b, " + names + ")"},
			{"Mix", "eng.ExecuteMixModelWithStopTagDirect(rb, stag)", "eng2.ExecuteMixModel(rb2)"},
		} {
			if n == 1 && d.id != "Sort" {
				continue
			}
			add(fmt.Sprintf("H_Diff%s_%d", d.id, n), "differential:"+d.id, fmt.Sprintf("tag never set: %s behaves like its plain counterpart, %d rules", d.id, n),
				fmt.Sprintf(`	n := %d
	s := symSal(n)
	assumeDistinct(s)
	f := symFlags("f", n)
	g := symFlags("g", n)
	v := symVals("v", n)
	b := vnd.Bool("b")
	_ = b
	stag := &engine.Stag{}
	mk := func() *builder.RuleBuilder {
		dc := newDC(f)
		addFlags(dc, "g", g)
		addVals(dc, "v", v)
		dc.Add("stag", stag)
		return buildTextPlain(dc, rulesTextOpt(n, s, "g"))
	}
	rb, rb2 := mk(), mk()
	eng, eng2 := engine.NewGengine(), engine.NewGengine()
	err := %s
	vnd.Event("ret")
	vnd.Quiesce()
	res, _ := eng.GetRulesResultMap()
	tr1 := vnd.Trace()
	err2 := %s
	vnd.Event("ret2")
	vnd.Quiesce()
	res2, _ := eng2.GetRulesResultMap()
	tr2 := vnd.Trace()[len(tr1):]
	vnd.Reach("executed")
	vnd.Assert(!stag.StopTag, "the tag stays unset")
	vnd.Assert((err == nil) == (err2 == nil), "same error-ness")
	sameRuns(tr1, tr2, n, %v)
	vnd.Assert(len(res) == len(res2), "same result map size")
	for k, x := range res {
		y, ok := res2[k]
		vnd.Assert(ok, "same result keys")
		vnd.Assert(x == y, "same result values")
	}
`, n, d.tagCall, d.plainCall, d.id != "Mix"))
		}
	}
	// thirteen rules with tied saliences (enough for an unstable sort to show), tag never set: the same
	// builder and names give the very same order with and without a tag
	for _, d := range []struct{ id, tagCall, plainCall string }{
		{"Selected", "eng.ExecuteSelectedRulesWithControlAndStopTag(rb, b, stag, names)", "eng.ExecuteSelectedRulesWithControl(rb, b, names)"},
		{"AsGiven", "eng.ExecuteSelectedRulesWithControlAndStopTagAsGivenSortedName(rb, b, stag, names)", "eng.ExecuteSelectedRulesWithControlAsGivenSortedName(rb, b, names)"},
	} {
		name := "H_DiffTies13" + d.id
		add(name, "differential-ties:"+d.id, d.id+": 13 rules with tied saliences, tag never set, same order as the plain variant", fmt.Sprintf(`	n := 13
	s := make([]int64, n)
	var names []string
	for i := range s {
		s[i] = int64(i / 4)
		names = append(names, "r"+strconv.Itoa(i))
	}
	b := vnd.Bool("b")
	_ = b
	stag := &engine.Stag{}
	dc := newDC(allFalse(n))
	rb := buildTextPlain(dc, rulesText(n, s))
	eng := engine.NewGengine()
	err := %s
	tr1 := vnd.Trace()
	err2 := %s
	tr2 := vnd.Trace()[len(tr1):]
	vnd.Reach("executed")
	vnd.Assert(err == nil && err2 == nil && !stag.StopTag, "no failure, the tag stays unset")
	sameRuns(tr1, tr2, n, true)
`, d.plainCall, d.tagCall))
	}
	// the as-given variant with a rule named twice: the stop applies at the first rule that set the tag
	add("H_AsGivenDuplicates", "duplicates:AsGiven", "as-given with names [r0 r1 r0 r2]: nothing starts after the rule that set the tag", `	n := 3
	s := symSal(n)
	t := symFlags("t", n)
	b := vnd.Bool("b")
	stag := &engine.Stag{}
	dc := newDC(allFalse(n))
	addFlags(dc, "t", t)
	dc.Add("stag", stag)
	rb := buildText(dc, rulesTextOpt(n, s, "t"))
	eng := engine.NewGengine()
	err := eng.ExecuteSelectedRulesWithControlAndStopTagAsGivenSortedName(rb, b, stag, []string{"r0", "r1", "r0", "r2"})
	vnd.Reach("executed")
	vnd.Assert(err == nil, "no rule fails")
	ord := []int{0, 1, 0, 2}
	want := 0
	for k, i := range ord {
		want = k + 1
		if t[i] {
			break
		}
	}
	tr := vnd.Trace()
	vnd.Assert(len(tr) == 2*want, "exactly the rules up to and including the first one that set the tag run, each occurrence once")
	for k := 0; k < want && 2*k+1 < len(tr); k++ {
		vnd.Assert(tr[2*k] == sname(ord[k]) && tr[2*k+1] == ename(ord[k]), "rules run in the caller's order")
	}
`)
	// the pool's mix stop-tag wrapper when the first rule sets the caller's tag through an injected function
	add("P_mix_tag_by_closure", "pool", "pool mix stop-tag: the first rule sets the tag through an injected closure or method", `	for _, how := range []string{"stop()", "ctl.Stop()", "stag.StopTag = true"} {
		apis := map[string]interface{}{"unused": int64(0)}
		text := "rule \"r0\" salience 9 begin\n ev(\"r0.s\")\n " + how + "\n ev(\"r0.e\")\nend\nrule \"r1\" salience 5 begin\n ev(\"r1.s\")\n ev(\"r1.e\")\nend\nrule \"r2\" salience 3 begin\n ev(\"r2.s\")\n ev(\"r2.e\")\nend\n"
		gp, e := engine.NewGenginePool(1, 2, engine.SortModel, text, apis)
		must(e, "pool construction")
		stag := &engine.Stag{}
		c1, c2 := vnd.Count("r1.s"), vnd.Count("r2.s")
		err, _ := gp.ExecuteMixModelWithStopTagDirect(map[string]interface{}{"ev": func(x string) { vnd.Event(x) }, "stag": stag, "stop": func() { stag.StopTag = true }, "ctl": &tagCtl{stag}}, stag)
		vnd.Quiesce()
		vnd.Assert(err == nil && stag.StopTag, "the first rule set the caller's tag")
		vnd.Assert(vnd.Count("r1.s") == c1 && vnd.Count("r2.s") == c2, "once the first rule set the tag no further rule starts")
	}
	vnd.Reach("executed")
`)
	// the pool's selected stop-tag wrappers, names holding an unknown one: the first selected rule sets the tag
	add("P_selected_tag_unknown_name", "pool", "pool selected stop-tag calls with an unknown name in the list: the tag is still obeyed", `	apis := map[string]interface{}{"unused": int64(0)}
	text := "rule \"r0\" salience 9 begin\n ev(\"r0.s\")\n if set {\n  stag.StopTag = true\n }\n ev(\"r0.e\")\nend\nrule \"r1\" salience 5 begin\n ev(\"r1.s\")\n ev(\"r1.e\")\nend\nrule \"r2\" salience 3 begin\n ev(\"r2.s\")\n ev(\"r2.e\")\nend\n"
	gp, e := engine.NewGenginePool(1, 2, engine.SortModel, text, apis)
	must(e, "pool construction")
	for _, names := range [][]string{{"r0", "r1", "r2"}, {"zz", "r0", "r1"}, {"r0", "zz", "r2"}, {"r0", "r1", "zz"}} {
		for which := 0; which < 2; which++ {
			set, b := vnd.Bool("set"), vnd.Bool("b")
			stag := &engine.Stag{}
			data := map[string]interface{}{"ev": func(x string) { vnd.Event(x) }, "stag": stag, "set": set}
			c1, c2 := vnd.Count("r1.s"), vnd.Count("r2.s")
			var err error
			if which == 0 {
				err, _ = gp.ExecuteSelectedRulesWithControlAndStopTag(data, b, stag, names)
			} else {
				err, _ = gp.ExecuteSelectedRulesWithControlAndStopTagAsGivenSortedName(data, b, stag, names)
			}
			vnd.Quiesce()
			vnd.Assert(err == nil, "no rule fails")
			later := (vnd.Count("r1.s") - c1) + (vnd.Count("r2.s") - c2)
			if set {
				vnd.Assert(later == 0, "once the first selected rule set the tag no further rule starts")
			} else {
				vnd.Assert(later == countKnown(names)-1, "without the tag every known selected rule runs")
			}
		}
	}
	vnd.Reach("executed")
`)
	// a second call that is handed the same Stag object while it is still set: the tag counts from the start,
	// so exactly the first rule of the order runs (the entry points test the tag after a rule, not before)
	for _, d := range []struct{ id, call string }{
		{"Sort", "eng.ExecuteWithStopTagDirect(rb, b, stag)"},
		{"Selected", "eng.ExecuteSelectedRulesWithControlAndStopTag(rb, b, stag, []string{\"r0\", \"r1\", \"r2\"})"},
		{"AsGiven", "eng.ExecuteSelectedRulesWithControlAndStopTagAsGivenSortedName(rb, b, stag, []string{\"r2\", \"r1\", \"r0\"})"},
	} {
		name := "H_ReusedTag" + d.id
		add(name, "reused-tag:"+d.id, d.id+": second call with the same, still set, tag object", fmt.Sprintf(`	n := 3
	s := symSal(n)
	t := symFlags("t", n)
	b := vnd.Bool("b")
	_ = b
	stag := &engine.Stag{}
	dc := newDC(allFalse(n))
	addFlags(dc, "t", allTrue(n))
	dc.Add("stag", stag)
	rb := buildText(dc, rulesTextOpt(n, s, "t"))
	eng := engine.NewGengine()
	_ = %s
	vnd.Assert(stag.StopTag, "the first call's first rule set the tag")
	mark := len(vnd.Trace())
	addFlags(rb.Dc, "t", t)
	err := %s
	vnd.Reach("executed")
	vnd.Assert(err == nil, "no rule fails")
	started := 0
	for i := 0; i < n; i++ {
		started += countSince(mark, sname(i))
	}
	vnd.Assert(started == 1, "with the tag already set no rule starts after the first one")
`, d.call, d.call))
	}
	// a rule that sets the tag and then leaves through a return statement
	for _, d := range []struct{ id, call, oracle string }{
		{"Sort", "eng.ExecuteWithStopTagDirect(rb, b, stag)", "checkSortedTag(tr, n, allTrue(n), s, t, f, b, err)"},
		{"Selected", "eng.ExecuteSelectedRulesWithControlAndStopTag(rb, b, stag, []string{\"r0\", \"r1\"})", "checkSortedTag(tr, n, allTrue(n), s, t, f, b, err)"},
		{"AsGiven", "eng.ExecuteSelectedRulesWithControlAndStopTagAsGivenSortedName(rb, b, stag, []string{\"r1\", \"r0\"})", "checkAsGiven(tr, n, []int{1, 0}, t, f, b, err)"},
		{"Mix", "eng.ExecuteMixModelWithStopTagDirect(rb, stag)", "checkMixTag(0, n, s, t, f, err)"},
	} {
		name := "H_TagAndReturn" + d.id
		add(name, "tag-and-return:"+d.id, d.id+": a rule sets the tag and returns a value", fmt.Sprintf(`	n := 2
	s := symSal(n)
	t := symFlags("t", n)
	f := allFalse(n)
	b := vnd.Bool("b")
	_ = b
	stag := &engine.Stag{}
	dc := newDC(f)
	addFlags(dc, "t", t)
	dc.Add("stag", stag)
	text := ""
	for i := 0; i < n; i++ {
		k := strconv.Itoa(i)
		// the rule that sets the tag leaves through a return (its end event comes first)
		text += "rule \"r" + k + "\" salience " + vnd.SalText(s[i]) + "\nbegin\n ev(\"r" + k + ".s\")\n if t" + k + " {\n  stag.StopTag = true\n  ev(\"r" + k + ".e\")\n  return 7\n }\n ev(\"r" + k + ".e\")\nend\n"
	}
	rb := buildText(dc, text)
	eng := engine.NewGengine()
	err := %s
	vnd.Event("ret")
	vnd.Quiesce()
	vnd.Reach("executed")
	tr := vnd.Trace()
	_ = tr
	%s
`, d.call, tagReturnOracle(d.oracle)))
	}
	// two stop-tag requests waiting for an instance of a saturated pool at the same time: each obeys its own tag
	add("P_two_waiting_requests", "pool", "two stop-tag requests queue on a saturated (1,2) pool", `	apis := map[string]interface{}{"unused": int64(0)} // requests bring every name the rules use (no clash with api names)
	text := "rule \"r0\" salience 9 begin\n ev(\"r0.s\")\n hold()\n if set {\n  stag.StopTag = true\n }\n ev(\"r0.e\")\nend\nrule \"r1\" salience 5 begin\n ev(\"r1.s\")\n ev(\"r1.e\")\nend\n"
	gp, e := engine.NewGenginePool(1, 2, engine.SortModel, text, apis)
	must(e, "pool construction")
	var gate sync.Mutex
	gate.Lock()
	var wg sync.WaitGroup
	for k := 0; k < 2; k++ {
		wg.Add(1)
		go func() {
			defer wg.Done()
			gp.Execute(map[string]interface{}{"ev": func(x string) { vnd.Event("S:" + x) }, "set": false, "stag": &engine.Stag{}, "hold": func() {
				gate.Lock()
				gate.Unlock()
			}}, true)
		}()
	}
	vnd.Quiesce() // both instances are now held by requests blocked inside r0
	sa, sb := &engine.Stag{}, &engine.Stag{}
	wg.Add(2)
	go func() {
		defer wg.Done()
		gp.ExecuteWithStopTagDirect(map[string]interface{}{"ev": func(x string) { vnd.Event("A:" + x) }, "hold": func() {}, "set": true, "stag": sa}, true, sa)
	}()
	go func() {
		defer wg.Done()
		gp.ExecuteWithStopTagDirect(map[string]interface{}{"ev": func(x string) { vnd.Event("B:" + x) }, "hold": func() {}, "set": false, "stag": sb}, true, sb)
	}()
	vnd.Nap() // both are polling for an instance
	vnd.Nap()
	gate.Unlock()
	wg.Wait()
	vnd.Quiesce()
	vnd.Reach("executed")
	vnd.Assert(sa.StopTag && !sb.StopTag, "each request's rules see their own tag object")
	vnd.Assert(vnd.Count("A:r0.e") == 1 && vnd.Count("B:r0.e") == 1, "both requests ran their first rule")
	vnd.Assert(vnd.Count("A:r1.s") == 0, "no rule starts after the request's own tag was set")
	vnd.Assert(vnd.Count("B:r1.s") == 1, "a request whose tag stays unset runs every rule")
`)
	fam.Instances[len(fam.Instances)-1].Nondet = true
	// a second call on the same engine with a fresh *Stag: only the tag of the current call counts
	for _, d := range []struct{ id, call, oracle string }{
		{"Sort", "eng.ExecuteWithStopTagDirect(rb, b, %s)", "checkSortedTag(tr, n, allTrue(n), s, t, f, b, err)"},
		{"Selected", "eng.ExecuteSelectedRulesWithControlAndStopTag(rb, b, %s, []string{\"r0\", \"r1\"})", "checkSortedTag(tr, n, allTrue(n), s, t, f, b, err)"},
		{"AsGiven", "eng.ExecuteSelectedRulesWithControlAndStopTagAsGivenSortedName(rb, b, %s, []string{\"r1\", \"r0\"})", "checkAsGiven(tr, n, []int{1, 0}, t, f, b, err)"},
		{"Mix", "eng.ExecuteMixModelWithStopTagDirect(rb, %s)", "checkMixTag(mark, n, s, t, f, err)"},
	} {
		for _, first := range []bool{true, false} {
			name := fmt.Sprintf("H_Second%s_%v", d.id, first)
			add(name, "second-call:"+d.id, fmt.Sprintf("%s: second call on the same engine with a fresh tag (first call set its tag: %v)", d.id, first),
				fmt.Sprintf(`	n := 2
	s := symSal(n)
	f := symFlags("f", n)
	t := symFlags("t", n)
	b := vnd.Bool("b")
	_ = b
	stag1 := &engine.Stag{}
	dc := newDC(allFalse(n))
	addFlags(dc, "t", []bool{%v, %v})
	dc.Add("stag", stag1)
	rb := buildText(dc, rulesTextOpt(n, s, "t"))
	eng := engine.NewGengine()
	_ = %s
	vnd.Event("ret1")
	vnd.Quiesce()
	vnd.Assert(stag1.StopTag == %v, "the first call's tag is what its rules made it")
	mark := len(vnd.Trace())
	stag := &engine.Stag{}
	rb.Dc.Add("stag", stag)
	addFlags(rb.Dc, "f", f)
	addFlags(rb.Dc, "t", t)
	err := %s
	vnd.Event("ret")
	vnd.Quiesce()
	vnd.Reach("executed")
	tr := vnd.Trace()[mark:]
	_ = tr
	%s
`, first, first, fmt.Sprintf(d.call, "stag1"), first, fmt.Sprintf(d.call, "stag"), d.oracle))
		}
	}
	b.WriteString(`
type tagCtl struct{ t *engine.Stag }

func (c *tagCtl) Stop() { c.t.StopTag = true }

func countKnown(names []string) int {
	k := 0
	for _, nm := range names {
		if nm == "r0" || nm == "r1" || nm == "r2" {
			k++
		}
	}
	return k
}

// checkMixTag (second call, events counted from mark): if the first rule sets the tag or fails
// nothing else starts, otherwise every other rule runs once; error iff a started rule failed
func checkMixTag(mark int, n int, s []int64, t, f []bool, err error) {
	tr := vnd.Trace()[mark:]
	ord := startOrder(tr, n)
	if len(ord) == 0 {
		vnd.Assert(false, "at least one rule runs")
		return
	}
	first := ord[0]
	for j := 0; j < n; j++ {
		vnd.Assert(s[first] >= s[j], "the first rule has the highest salience")
		vnd.Assert(countSince(mark, sname(j)) <= 1, "no rule starts twice")
	}
	if len(ord) == 1 && n > 1 {
		vnd.Assert(vnd.Or(t[first], f[first]), "the rest is skipped only if the first rule set the tag or failed")
		vnd.Assert(vnd.Iff(err != nil, f[first]), "error iff the first rule failed")
		return
	}
	vnd.Assert(vnd.And(!t[first], !f[first]), "once the first rule set the tag no further rule starts")
	vnd.Assert(len(ord) == n, "without a tag every rule runs")
	failed := false
	for _, i := range ord {
		failed = vnd.Or(failed, f[i])
	}
	vnd.Assert(vnd.Iff(err != nil, failed), "error iff a started rule failed")
}
`)
	b.WriteString(`
// sameRuns: both traces start the same rules (ordered = in the same order).
func sameRuns(tr1, tr2 []string, n int, ordered bool) {
	a, c := startOrder(tr1, n), startOrder(tr2, n)
	vnd.Assert(len(a) == len(c), "same number of rules run")
	if len(a) != len(c) {
		return
	}
	for k := range a {
		if ordered {
			vnd.Assert(a[k] == c[k], "same rules in the same order")
		} else {
			vnd.Assert(indexOf(c, a[k]) >= 0, "same rules run")
		}
	}
	for i := 0; i < n; i++ {
		vnd.Assert(vnd.Count(ename(i)) %% 2 == 0, "same rules finish in both runs")
	}
}
`)
	body := strings.ReplaceAll(b.String(), "%%", "%")
	fam.Files[repoDir+"/zz_verif/"+pkg+"/h.go"] = strings.Replace(stdHead(pkg), "import (", "import (\n\t\"strconv\"\n\t\"sync\"\n\n\t\"github.com/bilibili/gengine/builder\"", 1) + "\nvar _ = builder.NewRuleBuilder\n" + body
	fam.Files[repoDir+"/zz_verif/"+pkg+"/lib.go"] = libFile(pkg)
	fam.TestFile = repoDir + "/zz_verif/" + pkg + "/zz_replay_test.go"
	fam.TestSrc = testFile(pkg, fam.Instances)
	return fam, nil
}

func genC15(tier string, seed int64) (*Family, error) {
	pkg := "c15"
	fam := &Family{
		Prop: "C15", PkgPath: modPath + "/zz_verif/" + pkg, Files: map[string]string{},
		Bounds:    map[string]interface{}{"rules": "2-3 sharing the local name x", "calls_per_engine": 2, "models": "every engine entry point"},
		Cfg:       interp.Config{MaxSteps: 3_000_000, TrackMakeMaps: []string{"base.RuleEntity).Execute"}},
		Functions: []string{"base.RuleEntity).Execute", "DataContext).SetValue", "DataContext).GetValue"},
	}
	fam.Assumptions = []string{"the per-execution local map is the one allocated in RuleEntity.Execute; its accesses are events, so that use by two goroutines shows up as a race in every schedule", "schedule handling as in C05"}
	fam.Outside = []string{"pool requests (C06)"}
	var b strings.Builder
	for _, m := range engineModels() {
		name := "H_" + m.name
		n := m.n
		// rule i < n-1 assigns x and returns it; the last (lowest priority) rule only reads x
		var text strings.Builder
		for i := 0; i < n; i++ {
			k := fmt.Sprint(i)
			sal := fmt.Sprint(10 * (n - i))
			if i < n-1 {
				text.WriteString("rule \"r" + k + "\" salience " + sal + "\nbegin\n ev(\"r" + k + ".s\")\n x = a" + k + "\n y = x\n ev(\"r" + k + ".e\")\n return y\nend\n")
			} else {
				text.WriteString("rule \"r" + k + "\" salience " + sal + "\nbegin\n ev(\"r" + k + ".s\")\n y = x\n ev(\"r" + k + ".e\")\n return y\nend\n")
			}
		}
		call := strings.ReplaceAll(m.call, "rb, false", "rb, true")
		call = strings.ReplaceAll(call, ", false, ", ", true, ")
		fmt.Fprintf(&b, `
// locals of one rule are invisible to the others: %s
func %s() {
	n := %d
	a := symVals("a", n)
	dc := newDC(nil)
	addVals(dc, "a", a)
	rb := buildText(dc, %q)
	eng := engine.NewGengine()
	for call := 0; call < 2; call++ {
		base := countsOf(n)
		ebase := vnd.Count(ename(n - 1))
		err := %s
		vnd.Event("ret")
		vnd.Quiesce()
		res, _ := eng.GetRulesResultMap()
		vnd.NoRaces("map:")
		vnd.StopIfViolated()
		last := n - 1
		if vnd.Count(sname(last))-base[last] == 1 {
			vnd.Assert(err != nil, "a rule reading another rule's local fails")
			vnd.Assert(vnd.Count(ename(last)) == ebase, "the reader stops at the undefined local")
			_, has := res["r"+strconv.Itoa(last)]
			vnd.Assert(!has, "the reader returns nothing")
		}
		for i := 0; i < last; i++ {
			if vnd.Count(sname(i))-base[i] == 1 {
				x, ok := res["r"+strconv.Itoa(i)].(int64)
				vnd.Assert(ok, "the writer returns its local")
				vnd.Assert(x == a[i], "each rule sees its own local")
			}
		}
	}
	vnd.Reach("executed")
}
`, m.fn, name, n, text.String(), call)
		fam.Instances = append(fam.Instances, Instance{Func: name, Stratum: m.fn, Desc: "rule locals private in " + m.fn, Expect: []string{"executed"}})
	}
	// locals of an execution that ended in a fault, and of rules with many locals
	b.WriteString(`
// a local assigned by an execution that then faulted (at rule level, in an assignment, in a call) is gone in the next execution of the same rule
func H_after_fault() {
	for _, kind := range []string{" if x {\n  y = 1\n }", " y = one / zero", " boom()", " return !x"} {
		dc := newDC(nil)
		a := vnd.Int64("a")
		dc.Add("a", a)
		dc.Add("p", true)
		dc.Add("boom", func() { panic("boom") })
		rb := buildText(dc, "rule \"r0\" begin\n ev(\"r0.s\")\n if p {\n  x = a\n "+kind+"\n }\n y = x\n ev(\"r0.e\")\n return y\nend\n")
		eng := engine.NewGengine()
		err := eng.Execute(rb, true)
		vnd.Assert(err != nil, "the first execution faults after assigning x")
		dc.Add("p", false)
		e0 := vnd.Count("r0.e")
		err = eng.Execute(rb, true)
		res, _ := eng.GetRulesResultMap()
		vnd.Assert(err != nil, "the next execution of the rule starts with x undefined")
		vnd.Assert(vnd.Count("r0.e") == e0, "the reader stops at the undefined local")
		_, has := res["r0"]
		vnd.Assert(!has, "nothing is returned")
	}
	vnd.Reach("executed")
}

// rules with many locals: none of them reaches the next rule or the next call
func H_many_locals() {
	for _, k := range []int{1, 8, 9, 12, 17, 33} {
		dc := newDC(nil)
		a := vnd.Int64("a")
		dc.Add("a", a)
		body := ""
		for i := 0; i < k; i++ {
			body += " l" + strconv.Itoa(i) + " = a\n"
		}
		text := "rule \"r0\" salience 10 begin\n ev(\"r0.s\")\n" + body + " ev(\"r0.e\")\nend\nrule \"r1\" salience 5 begin\n ev(\"r1.s\")\n y = l" + strconv.Itoa(k-1) + "\n ev(\"r1.e\")\n return y\nend\n"
		rb := buildText(dc, text)
		eng := engine.NewGengine()
		for call := 0; call < 2; call++ {
			e0 := vnd.Count("r1.e")
			err := eng.Execute(rb, true)
			vnd.Assert(err != nil, "the reader fails: the other rule's locals are invisible")
			vnd.Assert(vnd.Count("r1.e") == e0, "the reader stops at the undefined local")
		}
		err := eng.ExecuteSelectedRules(rb, []string{"r1"})
		vnd.Assert(err != nil, "also in a later call that runs the reader alone")
	}
	vnd.Reach("executed")
}
`)
	b.WriteString(`
// the same rule twice in one DAG layer: two executions of one AST inside the same conc block at
// once; each execution's locals hold the values its own members computed
func H_same_rule_twice_conc() {
	var mu sync.Mutex
	next := int64(0)
	var pairs [][2]int64
	arrive := new(sync.WaitGroup)
	dc := newDC(nil)
	dc.Add("tick", func() int64 {
		// no member computes before all four members of the two executions are running
		arrive.Done()
		arrive.Wait()
		mu.Lock()
		next++
		v := next
		mu.Unlock()
		vnd.Event("tick")
		return v
	})
	dc.Add("pair", func(x, y int64) {
		mu.Lock()
		pairs = append(pairs, [2]int64{x, y})
		mu.Unlock()
		vnd.Event("pair")
	})
	rb := buildText(dc, "rule \"r0\" begin\n conc {\n  a = tick()\n  b = tick()\n }\n pair(a, b)\nend\n")
	eng := engine.NewGengine()
	for call := 0; call < 2; call++ {
		mu.Lock()
		next, pairs = 0, nil
		mu.Unlock()
		arrive.Add(4)
		err := eng.ExecuteDAGModel(rb, [][]string{{"r0", "r0"}})
		vnd.Event("ret")
		vnd.Quiesce()
		vnd.NoRaces("map:")
		vnd.StopIfViolated()
		vnd.Assert(err == nil, "both executions find their own locals")
		vnd.Assert(len(pairs) == 2, "both executions reach the statement after the block")
		seen := map[int64]int{}
		for _, p := range pairs {
			seen[p[0]]++
			seen[p[1]]++
			vnd.Assert(p[0] != p[1], "two members, two values")
		}
		for v := int64(1); v <= 4; v++ {
			vnd.Assert(seen[v] == 1, "every computed value lands in exactly one execution's locals")
		}
	}
	vnd.Reach("executed")
}

// a function held in a rule local is callable by that rule only
func H_function_local() {
	k := vnd.Int64("k")
	dc := newDC(nil)
	dc.Add("k", k)
	dc.Add("mk", func(m int64) func(int64) int64 { return func(x int64) int64 { return x * m } })
	rb := buildText(dc, "rule \"r0\" salience 10 begin\n ev(\"r0.s\")\n sc = mk(3)\n x = sc(k)\n ev(\"r0.e\")\n return x\nend\nrule \"r1\" salience 5 begin\n ev(\"r1.s\")\n y = sc(5)\n ev(\"r1.e\")\n return y\nend\n")
	eng := engine.NewGengine()
	for call := 0; call < 2; call++ {
		e1 := vnd.Count("r1.e")
		err := eng.Execute(rb, false)
		res, _ := eng.GetRulesResultMap()
		x, ok := res["r0"].(int64)
		vnd.Assert(ok && x == 3*k, "the rule calls the function held in its own local")
		vnd.Assert(err != nil, "another rule does not see the function-valued local")
		vnd.Assert(vnd.Count("r1.e") == e1, "the reader stops at the undefined function")
		_, has := res["r1"]
		vnd.Assert(!has, "the reader returns nothing")
	}
	err := eng.ExecuteSelectedRules(rb, []string{"r1"})
	vnd.Assert(err != nil, "also in a later call that runs the reader alone")
	_, e := dc.Get("sc")
	vnd.Assert(e != nil, "a local never appears among the injected names")
	vnd.Reach("executed")
}
`)
	// whatever construct binds the local (forRange key, for variable, conc member, nested or compound
	// assignment, map-range key), an assignment-free rule reading that name finds it undefined
	for k, w := range []struct{ id, body, name string }{
		{"forrange_key", " forRange k := arr {\n  sink(k)\n }\n", "k"},
		{"forrange_key_empty", " forRange k := none {\n  sink(k)\n }\n forRange k2 := arr {\n  sink(k2)\n }\n", "k2"},
		{"maprange_key", " forRange mk := mp {\n  sink(mk)\n }\n", "mk"},
		{"for_var", " for i = 0; i < 2; i += 1 {\n  sink(i)\n }\n", "i"},
		{"conc_member", " conc {\n  c = one()\n  sink(5)\n }\n", "c"},
		{"nested_assign", " if yes {\n  forRange q := arr {\n   deep = q\n  }\n }\n", "deep"},
		{"colon_assign", " w := one()\n sink(w)\n", "w"},
	} {
		name := fmt.Sprintf("H_binder_%d_%s", k, w.id)
		text := "rule \"r0\" salience 10 begin\n ev(\"r0.s\")\n" + w.body + " ev(\"r0.e\")\nend\nrule \"r1\" salience 5 begin\n ev(\"r1.s\")\n sink(" + w.name + ")\n ev(\"r1.e\")\nend\n"
		fmt.Fprintf(&b, `
// the local %s bound by %s is invisible to an assignment-free rule, in this call, the next one and on another engine
func %s() {
	a := vnd.Int64("a")
	dc := newDC(nil)
	var seen []int64
	dc.Add("sink", func(x int64) { seen = append(seen, x) })
	dc.Add("one", func() int64 { return a })
	dc.Add("yes", true)
	dc.Add("arr", []int64{a, 2})
	dc.Add("none", []int64{})
	dc.Add("mp", map[int64]int64{3: a})
	rb := buildText(dc, %q)
	eng := engine.NewGengine()
	for call := 0; call < 2; call++ {
		e0, e1 := vnd.Count("r0.e"), vnd.Count("r1.e")
		err := eng.Execute(rb, true)
		vnd.Assert(vnd.Count("r0.e") == e0+1, "the binding rule runs to its end")
		vnd.Assert(err != nil, "a rule reading another rule's local fails")
		vnd.Assert(vnd.Count("r1.e") == e1, "the reader stops at the undefined local")
	}
	err := engine.NewGengine().ExecuteSelectedRules(rb, []string{"r1"})
	vnd.Assert(err != nil, "also alone on a fresh engine")
	_, e := dc.Get(%q)
	vnd.Assert(e != nil, "a local never appears among the injected names")
	vnd.Reach("executed")
}
`, w.name, w.id, name, text, w.name)
		fam.Instances = append(fam.Instances, Instance{Func: name, Stratum: "binder:" + w.id, Desc: "local bound by " + w.id + " stays private", Text: text, Expect: []string{"executed"}})
	}
	// a struct-valued local read with dotted syntax
	for _, m := range engineModels() {
		if m.n != 2 {
			continue
		}
		name := "HS_" + m.name
		text := "rule \"r0\" salience 20 begin\n ev(\"r0.s\")\n p = mk(a0)\n y = p.V\n z = p.In.W\n ev(\"r0.e\")\n return y + z\nend\nrule \"r1\" salience 10 begin\n ev(\"r1.s\")\n y = p.V\n ev(\"r1.e\")\n return y\nend\n"
		call := strings.ReplaceAll(m.call, "rb, false", "rb, true")
		call = strings.ReplaceAll(call, ", false, ", ", true, ")
		fmt.Fprintf(&b, `
// a struct-valued local read as p.V / p.In.W is private to its rule: %s
func %s() {
	n := 2
	a := symVals("a", n)
	dc := newDC(nil)
	addVals(dc, "a", a)
	dc.Add("mk", func(v int64) *sbox { return &sbox{V: v, In: &sin{W: v + 1}} })
	rb := buildText(dc, %q)
	eng := engine.NewGengine()
	for call := 0; call < 2; call++ {
		base := countsOf(n)
		e1 := vnd.Count(ename(1))
		err := %s
		vnd.Event("ret")
		vnd.Quiesce()
		res, _ := eng.GetRulesResultMap()
		if vnd.Count(sname(1))-base[1] == 1 {
			vnd.Assert(err != nil, "a rule reading another rule's local fails")
			vnd.Assert(vnd.Count(ename(1)) == e1, "the reader stops at the undefined local")
			_, has := res["r1"]
			vnd.Assert(!has, "the reader returns nothing")
		}
		if vnd.Count(sname(0))-base[0] == 1 {
			x, ok := res["r0"].(int64)
			vnd.Assert(ok && x == a[0]+a[0]+1, "the binding rule reads its own object")
		}
	}
	vnd.Reach("executed")
}
`, m.fn, name, text, call)
		fam.Instances = append(fam.Instances, Instance{Func: name, Stratum: "struct-local:" + m.fn, Desc: "struct-valued local private in " + m.fn, Expect: []string{"executed"}})
	}
	b.WriteString(`
type sin struct{ W int64 }
type sbox struct {
	V  int64
	In *sin
}
`)
	b.WriteString(`
type cfgBox struct {
	Limit int64
	Name  string
	Flag  bool
	Rate  float64
	Arr   [2]int64
	Sl    []int64
}

// a local whose first value came straight from a field / element of an injected object is a copy: assigning
// to the local later never writes through
func H_local_from_injected_field() {
	l0 := vnd.Int64("l0")
	cfg := &cfgBox{Limit: l0, Name: "pub", Flag: true, Rate: 1.5, Arr: [2]int64{l0, 2}, Sl: []int64{l0, 4}}
	dc := newDC(nil)
	dc.Add("Cfg", cfg)
	sl := []int64{l0, 9}
	dc.Add("psl", &sl)
	rb := buildText(dc, "rule \"r0\" salience 9 begin\n t = Cfg.Limit\n t = t * 2\n n = Cfg.Name\n n = \"private\"\n g = Cfg.Flag\n g = false\n r = Cfg.Rate\n r = 2.5\n a = Cfg.Arr[0]\n a = 77\n e = Cfg.Sl[0]\n e += 1\n p = psl[0]\n p = 55\n return t\nend\nrule \"r1\" salience 5 begin\n return Cfg.Limit\nend\n")
	eng := engine.NewGengine()
	for call := 0; call < 2; call++ {
		err := eng.Execute(rb, true)
		res, _ := eng.GetRulesResultMap()
		vnd.Assert(err == nil, "the rules succeed")
		x, ok := res["r0"].(int64)
		vnd.Assert(ok && x == 2*l0, "the local holds the new value")
		y, ok2 := res["r1"].(int64)
		vnd.Assert(ok2 && y == l0, "a later rule reads the injected field unchanged")
		vnd.Assert(cfg.Limit == l0 && cfg.Name == "pub" && cfg.Flag && cfg.Rate == 1.5 && cfg.Arr[0] == l0 && cfg.Sl[0] == l0 && sl[0] == l0, "assigning to a local never changes the injected object it was read from")
	}
	vnd.Reach("executed")
}
`)
	fam.Instances = append(fam.Instances, Instance{Func: "H_local_from_injected_field", Stratum: "local-copy", Desc: "locals initialised from injected fields / elements are copies", Expect: []string{"executed"}})
	b.WriteString(`
// two executions of one rule overlap while the first is between evaluating an earlier and a later argument of
// a call: each call receives the locals of its own execution
func H_same_rule_twice_args() {
	var mu sync.Mutex
	next := int64(0)
	var bad, calls int
	secondDone := new(sync.WaitGroup)
	secondDone.Add(1)
	dc := newDC(nil)
	dc.Add("id", func() int64 {
		mu.Lock()
		next++
		v := next
		mu.Unlock()
		return v
	})
	dc.Add("gate", func(me int64) int64 {
		if me == 1 {
			secondDone.Wait() // the first execution waits here, its earlier argument already evaluated
		}
		return me
	})
	dc.Add("pair", func(a, b int64) int64 {
		mu.Lock()
		calls++
		if a != b {
			bad++
		}
		mu.Unlock()
		vnd.Event("pair")
		if a == 2 || b == 2 {
			secondDone.Done()
		}
		return a
	})
	rb := buildText(dc, "rule \"r0\" begin\n me = id()\n seen = pair(me, gate(me))\n return seen\nend\n")
	eng := engine.NewGengine()
	err := eng.ExecuteDAGModel(rb, [][]string{{"r0", "r0"}})
	vnd.Event("ret")
	vnd.Quiesce()
	vnd.Assert(err == nil, "both executions succeed")
	vnd.Assert(calls == 2, "each execution makes its call")
	vnd.Assert(bad == 0, "a call receives the arguments its own execution evaluated")
	vnd.Reach("executed")
}
`)
	fam.Instances = append(fam.Instances, Instance{Func: "H_same_rule_twice_args", Stratum: "same-rule-overlap", Desc: "two executions of one rule overlapping inside the argument evaluation of a call", Expect: []string{"executed"}, Nondet: true})
	b.WriteString(`
type vbox struct{ V int64 }

func (b vbox) Get() int64        { return b.V }
func (b vbox) Plus(k int64) int64 { return b.V + k }

// a method called on a struct held by value in a local runs on that rule's own struct
func H_struct_value_local_method() {
	a := symVals("a", 3)
	dc := newDC(nil)
	addVals(dc, "a", a)
	dc.Add("mkv", func(v int64) vbox { return vbox{V: v} })
	text := ""
	for i := 0; i < 3; i++ {
		k := strconv.Itoa(i)
		text += "rule \"r" + k + "\" salience " + strconv.Itoa(9-i) + " begin\n p = mkv(a" + k + ")\n x = p.Get()\n y = p.Plus(1)\n return x + y\nend\n"
	}
	rb := buildText(dc, text)
	for model := 0; model < 2; model++ {
		eng := engine.NewGengine()
		var err error
		if model == 0 {
			err = eng.Execute(rb, true)
		} else {
			err = eng.ExecuteConcurrent(rb)
		}
		res, _ := eng.GetRulesResultMap()
		vnd.Assert(err == nil, "the rules succeed")
		for i := 0; i < 3; i++ {
			x, ok := res["r"+strconv.Itoa(i)].(int64)
			vnd.Assert(ok && x == a[i]+a[i]+1, "each rule's method call sees its own local struct")
		}
	}
	vnd.Reach("executed")
}

// a local whose name differs from an injected name only in letter case is a local
func H_case_different_names() {
	v := vnd.Int64("v")
	total := v
	dc := newDC(nil)
	dc.Add("Total", &total)
	dc.Add("Count", int64(3))
	rb := buildText(dc, "rule \"r0\" salience 9 begin\n ev(\"r0.s\")\n total = 7\n count = total + 1\n ev(\"r0.e\")\n return count\nend\nrule \"r1\" salience 5 begin\n ev(\"r1.s\")\n y = total\n ev(\"r1.e\")\n return y\nend\nrule \"r2\" salience 3 begin\n ev(\"r2.s\")\n y = count\n ev(\"r2.e\")\n return y\nend\n")
	eng := engine.NewGengine()
	for call := 0; call < 2; call++ {
		e1, e2 := vnd.Count("r1.e"), vnd.Count("r2.e")
		err := eng.Execute(rb, true)
		res, _ := eng.GetRulesResultMap()
		x, ok := res["r0"].(int64)
		vnd.Assert(ok && x == 8, "the rule computes with its own locals")
		vnd.Assert(err != nil, "a rule reading another rule's local fails")
		vnd.Assert(vnd.Count("r1.e") == e1 && vnd.Count("r2.e") == e2, "the readers stop at the undefined local")
		vnd.Assert(total == v, "assigning to a local never changes an injected object of a similar name")
	}
	vnd.Reach("executed")
}
`)
	b.WriteString(`
// one builder over three calls: the name N is a local of r0, then injected by the host, then removed again
func H_injected_later_then_removed() {
	v := vnd.Int64("v")
	dc := newDC(nil)
	rb := buildText(dc, "rule \"r0\" salience 9 begin\n ev(\"r0.s\")\n N = 7\n ev(\"r0.e\")\n return N\nend\nrule \"r1\" salience 5 begin\n ev(\"r1.s\")\n y = N\n ev(\"r1.e\")\n return y\nend\n")
	eng := engine.NewGengine()
	for round := 0; round < 2; round++ {
		e1 := vnd.Count("r1.e")
		err := eng.Execute(rb, true)
		vnd.Assert(err != nil && vnd.Count("r1.e") == e1, "a rule reading another rule's local fails")
		_, ge := dc.Get("N")
		vnd.Assert(ge != nil, "a local never shows up among the injected names")
		// the host injects N: the name now denotes the injected object, for every rule of the call
		n := v
		dc.Add("N", &n)
		err = eng.Execute(rb, true)
		res, _ := eng.GetRulesResultMap()
		vnd.Assert(err == nil, "both rules succeed on the injected name")
		vnd.Assert(n == 7, "the assignment reaches the injected object")
		y, ok := res["r1"].(*int64) // a pointer-injected scalar reads as the injected pointer
		vnd.Assert(ok && y == &n, "injected names are shared by all rules of the call")
		// the host removes N again: it is a local of r0 once more
		dc.Del("N")
		n = v
		e1 = vnd.Count("r1.e")
		err = eng.Execute(rb, true)
		vnd.Assert(err != nil && vnd.Count("r1.e") == e1, "a rule reading another rule's local fails")
		vnd.Assert(n == v, "assigning to a local does not reach an object that is no longer injected")
		_, ge = dc.Get("N")
		vnd.Assert(ge != nil, "a local never shows up among the injected names")
	}
	vnd.Reach("executed")
}
`)
	fam.Instances = append(fam.Instances, Instance{Func: "H_injected_later_then_removed", Stratum: "inject-remove", Desc: "a name that is local, then injected, then removed, over calls on one builder", Expect: []string{"executed"}})
	fam.Instances = append(fam.Instances, Instance{Func: "H_struct_value_local_method", Stratum: "struct-local:method", Desc: "value-receiver methods on struct-valued locals of three rules", Expect: []string{"executed"}},
		Instance{Func: "H_case_different_names", Stratum: "case-names", Desc: "locals total / count next to injected Total / Count", Expect: []string{"executed"}})
	fam.Instances = append(fam.Instances, Instance{Func: "H_same_rule_twice_conc", Stratum: "same-rule-overlap", Desc: "two overlapping executions of one rule inside its conc block", Expect: []string{"executed"}},
		Instance{Func: "H_function_local", Stratum: "function-local", Desc: "a function-valued local is private to its rule", Expect: []string{"executed"}})
	fam.Instances = append(fam.Instances, Instance{Func: "H_after_fault", Stratum: "after-fault", Desc: "locals of a faulted execution do not survive", Expect: []string{"executed"}},
		Instance{Func: "H_many_locals", Stratum: "many-locals", Desc: "rules with 1..33 locals followed by a reader", Expect: []string{"executed"}})
	fam.Files[repoDir+"/zz_verif/"+pkg+"/h.go"] = strings.Replace(stdHead(pkg), "import (", "import (\n\t\"strconv\"\n\t\"sync\"", 1) + b.String()
	fam.Files[repoDir+"/zz_verif/"+pkg+"/lib.go"] = libFile(pkg)
	fam.TestFile = repoDir + "/zz_verif/" + pkg + "/zz_replay_test.go"
	fam.TestSrc = testFile(pkg, fam.Instances)
	return fam, nil
}
