package main

import (
	"fmt"
	"strings"

	"symgo/interp"
)

func init() { generators["C18"] = genC18 }

func genC18(tier string, seed int64) (*Family, error) {
	pkg := "c18"
	fam := &Family{
		Prop: "C18", BothOrders: true, PkgPath: modPath + "/zz_verif/" + pkg, Files: map[string]string{},
		Bounds: map[string]interface{}{"members_per_block": "0..3 (thorough 4), fixed wide blocks of 17, 20 and 33", "member_kinds": "local assignment, injected-field assignment, function, method, three-level call", "failing_subset": "symbolic (panicking injected function)"},
		Cfg:    interp.Config{MaxSteps: 3_000_000, TrackMakeMaps: []string{"base.RuleEntity).Execute"}, TrackAllocs: []string{"*"}, TrackHostStructs: true},
		Functions: []string{"base.ConcStatement).Evaluate", "base.Assignment).Evaluate", "base.FunctionCall).Evaluate", "base.MethodCall).Evaluate", "base.ThreeLevelCall).Evaluate",
			"DataContext).ExecFunc", "DataContext).ExecMethod", "DataContext).ExecThreeLevel", "core.InvokeFunction"},
	}
	fam.Assumptions = []string{
		"a member fails through a panicking injected function (recovered by the call node); member start/end are events emitted by the injected function",
		"accesses to the rule's local map and to the captured error slice are events; the race query runs on them",
		"schedule handling as in C05 (all interleavings of the extracted event structure)",
	}
	fam.Outside = []string{"blocks with more members than the bound", "members with side effects on shared injected data that the host itself does not synchronise"}
	maxK := 2
	kinds := []byte{'A', 'I', 'F', 'M', 'T', 'L'}
	var combos []string
	var rec func(cur string, k int)
	rec = func(cur string, k int) {
		combos = append(combos, cur)
		if len(cur) == k {
			return
		}
		for _, c := range kinds {
			rec(cur+string(c), k)
		}
	}
	rec("", maxK)
	// larger blocks: one of each kind, and repeated kinds
	combos = append(combos, "AIF", "MTA", "AAA", "FMT", "IIA", "TFA", "LAI", "ALL")
	if tier == "thorough" {
		combos = nil
		rec("", 3)
		combos = append(combos, "AIFM", "MTAI", "AAAA", "FMTA", "AIFT")
	}
	var b strings.Builder
	b.WriteString(`
type Inner struct{}

func (in *Inner) Do(i int64, p bool) { member(i, p) }

type Obj struct {
	Inner *Inner
	X0    int64
	X1    int64
	X2    int64
	X3    int64
}

func (o *Obj) Do(i int64, p bool) { member(i, p) }

func mname(i int64, suffix string) string { return "m" + strconv.Itoa(int(i)) + suffix }

func member(i int64, p bool) {
	vnd.Event(mname(i, ".s"))
	if p {
		panic("boom")
	}
	vnd.Event(mname(i, ".e"))
}

func w(i, x int64, p bool) int64 {
	member(i, p)
	return x
}
`)
	for _, combo := range combos {
		name := "H_conc_" + combo
		if combo == "" {
			name = "H_conc_empty"
		}
		var members, sum []string
		for i, c := range combo {
			k := fmt.Sprint(i)
			switch c {
			case 'A':
				members = append(members, "  a"+k+" = w("+k+", v"+k+", p"+k+")")
				sum = append(sum, "a"+k)
			case 'I':
				members = append(members, "  obj.X"+k+" = w("+k+", v"+k+", p"+k+")")
				sum = append(sum, "obj.X"+k)
			case 'F':
				members = append(members, "  fn("+k+", p"+k+")")
			case 'M':
				members = append(members, "  obj.Do("+k+", p"+k+")")
			case 'T':
				members = append(members, "  obj.Inner.Do("+k+", p"+k+")")
			case 'L':
				members = append(members, "  loc.Do("+k+", p"+k+")")
			}
		}
		retExpr := "7"
		if len(sum) > 0 {
			retExpr = strings.Join(sum, " + ")
		}
		text := "rule \"r\" begin\n loc = mkobj()\n conc {\n" + strings.Join(members, "\n") + "\n }\n ev(\"after\")\n r = " + retExpr + "\n return r\nend\n"
		k := len(combo)
		var want []string
		for i, c := range combo {
			if c == 'A' || c == 'I' {
				want = append(want, fmt.Sprintf("v[%d]", i))
			}
		}
		wantExpr := "int64(7)"
		if len(want) > 0 {
			wantExpr = strings.Join(want, " + ")
		}
		fmt.Fprintf(&b, `
// conc block with members %q
func %s() {
	k := %d
	p := symFlags("p", k)
	v := symVals("v", k)
	dc := newDC(nil)
	addFlags(dc, "p", p)
	addVals(dc, "v", v)
	obj := &Obj{Inner: &Inner{}}
	dc.Add("obj", obj)
	dc.Add("w", w)
	dc.Add("fn", member)
	dc.Add("mkobj", func() *Obj { return &Obj{Inner: &Inner{}} })
	rb := buildText(dc, %q)
	eng := engine.NewGengine()
	err := eng.Execute(rb, true)
	vnd.Event("ret")
	vnd.Quiesce()
	res, _ := eng.GetRulesResultMap()
	vnd.Reach("executed")
	anyFail := false
	for i := 0; i < k; i++ {
		vnd.Assert(vnd.Count(mname(int64(i), ".s")) == 1, "every member runs exactly once")
		anyFail = vnd.Or(anyFail, p[i])
		if vnd.Count(mname(int64(i), ".e")) > 0 {
			vnd.RequireOrder(mname(int64(i), ".e"), "after")
		} else {
			vnd.RequireOrder(mname(int64(i), ".s"), "after")
		}
	}
	vnd.RequireJoined("ret")
	vnd.NoRaces("map:")
	vnd.NoRaces("var:")
	vnd.NoRaces("host:")
	vnd.StopIfViolated()
	vnd.Assert(vnd.Iff(err != nil, anyFail), "the block fails iff a member fails")
	vnd.Assert(vnd.Iff(vnd.Count("after") == 1, vnd.Not(anyFail)), "the next statement runs iff the block succeeded")
	if err == nil {
		x, ok := res["r"].(int64)
		vnd.Assert(ok, "result")
		vnd.Assert(x == %s, "the statement after the block observes every assignment")
	}
}
`, combo, name, k, text, wantExpr)
		fam.Instances = append(fam.Instances, Instance{Func: name, Stratum: fmt.Sprintf("members=%d", k), Desc: "conc block with members " + combo, Text: text, Expect: []string{"executed"}})
	}
	dupText := "rule \"r\" begin\n conc {\n  fn(0, p0)\n  fn(0, p0)\n  obj.Do(1, p1)\n  fn(0, p0)\n  obj.Do(1, p1)\n  obj.Inner.Do(2, p2)\n  obj.Inner.Do(2, p2)\n  a = w(3, v3, p3)\n  a = w(3, v3, p3)\n }\n ev(\"after\")\n return a\nend\n"
	fmt.Fprintf(&b, `
// textually identical members: each occurrence is a statement of its own
func H_conc_duplicates() {
	k := 4
	p := []bool{vnd.Bool("p0"), vnd.Bool("p1"), false, false}
	v := symVals("v", k)
	dc := newDC(nil)
	addFlags(dc, "p", p)
	addVals(dc, "v", v)
	obj := &Obj{Inner: &Inner{}}
	dc.Add("obj", obj)
	dc.Add("w", w)
	dc.Add("fn", member)
	rb := buildText(dc, %q)
	eng := engine.NewGengine()
	err := eng.Execute(rb, true)
	vnd.Event("ret")
	vnd.Quiesce()
	res, _ := eng.GetRulesResultMap()
	vnd.Reach("executed")
	for i, want := range []int{3, 2, 2, 2} {
		vnd.Assert(vnd.Count(mname(int64(i), ".s")) == want, "every member runs exactly once per occurrence")
	}
	vnd.RequireJoined("ret")
	vnd.NoRaces("map:")
	vnd.NoRaces("var:")
	vnd.StopIfViolated()
	anyFail := vnd.Or(p[0], p[1])
	vnd.Assert(vnd.Iff(err != nil, anyFail), "the block fails iff a member fails")
	vnd.Assert(vnd.Iff(vnd.Count("after") == 1, vnd.Not(anyFail)), "the next statement runs iff the block succeeded")
	if err == nil {
		x, ok := res["r"].(int64)
		vnd.Assert(ok && x == v[3], "the statement after the block observes the assignment")
	}
}
`, dupText)
	fam.Instances = append(fam.Instances, Instance{Func: "H_conc_duplicates", Stratum: "duplicates", Desc: "conc block with textually identical members", Text: dupText, Expect: []string{"executed"}})
	for _, before := range []int{0, 5, 8, 12} {
		name := fmt.Sprintf("H_conc_many_locals_%d", before)
		text := "rule \"r\" begin\n"
		for i := 0; i < before; i++ {
			text += fmt.Sprintf(" l%d = %d\n", i, i+1)
		}
		text += " conc {\n  a0 = w(0, v0, false)\n  a1 = w(1, v1, false)\n  a2 = w(2, v2, false)\n  a3 = w(3, v3, false)\n"
		if before > 0 {
			text += "  l0 = w(4, v4, false)\n"
		} else {
			text += "  a4 = w(4, v4, false)\n"
		}
		text += " }\n ev(\"after\")\n"
		sum := "a0 + a1 + a2 + a3"
		if before > 0 {
			sum += " + l0"
		} else {
			sum += " + a4"
		}
		for i := 1; i < before; i++ {
			sum += fmt.Sprintf(" + l%d", i)
		}
		text += " return " + sum + "\nend\n"
		extra := 0
		for i := 1; i < before; i++ {
			extra += i + 1
		}
		fmt.Fprintf(&b, `
// %d locals before the block, five assignments inside (one of them to an existing local when there is one)
func %s() {
	v := symVals("v", 5)
	dc := newDC(nil)
	addVals(dc, "v", v)
	dc.Add("w", w)
	rb := buildText(dc, %q)
	eng := engine.NewGengine()
	err := eng.Execute(rb, true)
	vnd.Event("ret")
	vnd.Quiesce()
	res, _ := eng.GetRulesResultMap()
	vnd.Reach("executed")
	vnd.RequireJoined("ret")
	vnd.NoRaces("map:")
	vnd.StopIfViolated()
	vnd.Assert(err == nil, "the block fails iff a member fails")
	x, ok := res["r"].(int64)
	vnd.Assert(ok && x == v[0]+v[1]+v[2]+v[3]+v[4]+%d, "the statement after the block observes every assignment")
}
`, before, name, text, extra)
		fam.Instances = append(fam.Instances, Instance{Func: name, Stratum: "many-locals", Desc: fmt.Sprintf("%d locals before a block of five assignments", before), Text: text, Expect: []string{"executed"}})
	}
	secondText := "rule \"r\" begin\n conc {\n  a0 = w(0, v0, false)\n  a1 = w(1, v1, false)\n  obj.X2 = w(2, v2, false)\n }\n ev(\"after\")\n return a0 + a1 + obj.X2\nend\n"
	fmt.Fprintf(&b, `
// the same builder executed three times with different data: every execution's block works on that execution's locals
func H_conc_repeated_execution() {
	dc := newDC(nil)
	dc.Add("w", w)
	obj := &Obj{Inner: &Inner{}}
	dc.Add("obj", obj)
	rb := buildText(dc, %q)
	eng := engine.NewGengine()
	for call := 0; call < 3; call++ {
		v := symVals("v", 3)
		addVals(dc, "v", v)
		s0, s1, a := vnd.Count(mname(0, ".s")), vnd.Count(mname(1, ".s")), vnd.Count("after")
		err := eng.Execute(rb, true)
		vnd.Quiesce()
		res, _ := eng.GetRulesResultMap()
		vnd.NoRaces("map:")
		vnd.StopIfViolated()
		vnd.Assert(err == nil, "the block fails iff a member fails")
		vnd.Assert(vnd.Count(mname(0, ".s"))-s0 == 1 && vnd.Count(mname(1, ".s"))-s1 == 1, "every member runs exactly once")
		vnd.Assert(vnd.Count("after")-a == 1, "the next statement runs iff the block succeeded")
		x, ok := res["r"].(int64)
		vnd.Assert(ok, "result")
		vnd.Assert(x == v[0]+v[1]+v[2], "the statement after the block observes every assignment of this execution")
	}
	vnd.Reach("executed")
}
`, secondText)
	fam.Instances = append(fam.Instances, Instance{Func: "H_conc_repeated_execution", Stratum: "repeated-execution", Desc: "one builder executed three times, block assigning locals read after it", Text: secondText, Expect: []string{"executed"}})
	for _, total := range []int{17, 20, 33} {
		name := fmt.Sprintf("H_conc_wide_%d", total)
		text := "rule \"r\" begin\n conc {\n  a0 = w(0, v0, p0)\n"
		for i := 1; i < total-1; i++ {
			text += fmt.Sprintf("  fn(%d, false)\n", i)
		}
		text += fmt.Sprintf("  obj.Do(%d, p1)\n }\n ev(\"after\")\n return a0\nend\n", total-1)
		fmt.Fprintf(&b, `
// a block of %d members; the first and the last one may fail
func %s() {
	k := %d
	p := symFlags("p", 2)
	v := symVals("v", 1)
	dc := newDC(nil)
	addFlags(dc, "p", p)
	addVals(dc, "v", v)
	dc.Add("obj", &Obj{Inner: &Inner{}})
	dc.Add("w", w)
	dc.Add("fn", member)
	rb := buildText(dc, %q)
	eng := engine.NewGengine()
	err := eng.Execute(rb, true)
	vnd.Event("ret")
	vnd.Quiesce()
	res, _ := eng.GetRulesResultMap()
	vnd.Reach("executed")
	for i := 0; i < k; i++ {
		vnd.Assert(vnd.Count(mname(int64(i), ".s")) == 1, "every member runs exactly once")
	}
	vnd.RequireJoined("ret")
	vnd.StopIfViolated()
	anyFail := vnd.Or(p[0], p[1])
	vnd.Assert(vnd.Iff(err != nil, anyFail), "the block fails iff a member fails")
	vnd.Assert(vnd.Iff(vnd.Count("after") == 1, vnd.Not(anyFail)), "the next statement runs iff the block succeeded")
	if err == nil {
		x, ok := res["r"].(int64)
		vnd.Assert(ok && x == v[0], "the statement after the block observes every assignment")
	}
}
`, total, name, total, text)
		fam.Instances = append(fam.Instances, Instance{Func: name, Stratum: "wide", Desc: fmt.Sprintf("block of %d members, first and last may fail", total), Text: text, Expect: []string{"executed"}})
	}
	sameTargetText := "rule \"r\" begin\n conc {\n  obj.X0 = missing\n  obj.X0 = w(0, v0, false)\n  a = missing2\n  a = w(1, v1, false)\n  a = w(2, v2, false)\n }\n ev(\"after\")\nend\n"
	fmt.Fprintf(&b, `
// several assignments to one target, the first of them failing: every statement still runs exactly once
func H_conc_same_target() {
	v := symVals("v", 3)
	dc := newDC(nil)
	addVals(dc, "v", v)
	dc.Add("obj", &Obj{Inner: &Inner{}})
	dc.Add("w", w)
	rb := buildText(dc, %q)
	eng := engine.NewGengine()
	err := eng.Execute(rb, true)
	vnd.Event("ret")
	vnd.Quiesce()
	vnd.Reach("executed")
	vnd.RequireJoined("ret")
	vnd.StopIfViolated()
	for i := int64(0); i < 3; i++ {
		vnd.Assert(vnd.Count(mname(i, ".s")) == 1, "every member runs exactly once")
	}
	vnd.Assert(err != nil, "the block fails iff a member fails")
	vnd.Assert(vnd.Count("after") == 0, "the next statement runs iff the block succeeded")
}
`, sameTargetText)
	fam.Instances = append(fam.Instances, Instance{Func: "H_conc_same_target", Stratum: "same-target", Desc: "assignments to one target of which the first fails", Text: sameTargetText, Expect: []string{"executed"}})
	argText := "rule \"r\" begin\n conc {\n  use(tick(0), missing)\n  obj.Use(tick(1), missing)\n  obj.Inner.Use(tick(2), missing)\n  a = use(tick(3), missing)\n }\n ev(\"after\")\nend\n"
	overlapText := "rule \"r\" begin\n gate()\n conc {\n  first()\n  second()\n }\n ev(\"after\")\nend\n"
	fmt.Fprintf(&b, `
func (o *Obj) Use(a, b int64) int64   { return a + b }
func (in *Inner) Use(a, b int64) int64 { return a + b }

// a member whose later argument is an unknown name: the earlier, side-effecting argument is evaluated once
func H_conc_faulty_argument() {
	dc := newDC(nil)
	dc.Add("obj", &Obj{Inner: &Inner{}})
	dc.Add("use", func(a, b int64) int64 { return a + b })
	dc.Add("tick", func(i int64) int64 {
		vnd.Event(mname(i, ".tick"))
		return i
	})
	rb := buildText(dc, %q)
	eng := engine.NewGengine()
	err := eng.Execute(rb, true)
	vnd.Event("ret")
	vnd.Quiesce()
	vnd.Reach("executed")
	vnd.RequireJoined("ret")
	vnd.StopIfViolated()
	for i := int64(0); i < 4; i++ {
		vnd.Assert(vnd.Count(mname(i, ".tick")) == 1, "every statement of the block, and every argument in it, is evaluated exactly once")
	}
	vnd.Assert(err != nil, "the block fails iff a member fails")
	vnd.Assert(vnd.Count("after") == 0, "the next statement runs iff the block succeeded")
}

// two executions of the same block overlap (the same rule twice in a DAG layer): the one whose member failed
// still fails although the other one entered the block after that failure was recorded
func H_conc_overlapping_evaluations() {
	var mu sync.Mutex
	gates, firsts := 0, 0
	aFailed, bEntered := new(sync.WaitGroup), new(sync.WaitGroup)
	aFailed.Add(1)
	bEntered.Add(1)
	dc := newDC(nil)
	dc.Add("gate", func() {
		mu.Lock()
		gates++
		k := gates
		mu.Unlock()
		if k == 2 {
			aFailed.Wait() // the second execution enters the block only after the first one's member has failed
		}
	})
	dc.Add("first", func() {
		mu.Lock()
		firsts++
		k := firsts
		mu.Unlock()
		if k == 1 {
			vnd.Event("boom")
			defer aFailed.Done()
			panic("boom")
		}
		bEntered.Done()
	})
	dc.Add("second", func() { bEntered.Wait() })
	rb := buildText(dc, %q)
	eng := engine.NewGengine()
	err := eng.ExecuteDAGModel(rb, [][]string{{"r", "r"}})
	vnd.Event("ret")
	vnd.Quiesce()
	vnd.Reach("executed")
	vnd.Assert(err != nil, "the block fails iff a member fails")
	vnd.Assert(vnd.Count("after") == 1, "the next statement runs iff the block succeeded")
}
`, argText, overlapText)
	fam.Instances = append(fam.Instances, Instance{Func: "H_conc_faulty_argument", Stratum: "faulty-argument", Desc: "members whose second argument is an unknown name", Text: argText, Expect: []string{"executed"}},
		Instance{Func: "H_conc_overlapping_evaluations", Stratum: "overlap", Desc: "two overlapping evaluations of one conc block", Text: overlapText, Expect: []string{"executed"}, Nondet: true})
	fam.Files[repoDir+"/zz_verif/"+pkg+"/h.go"] = strings.Replace(stdHead(pkg), "import (", "import (\n\t\"strconv\"\n\t\"sync\"", 1) + b.String()
	fam.Files[repoDir+"/zz_verif/"+pkg+"/lib.go"] = libFile(pkg)
	fam.TestFile = repoDir + "/zz_verif/" + pkg + "/zz_replay_test.go"
	fam.TestSrc = testFile(pkg, fam.Instances)
	return fam, nil
}
