package main

import (
	"strings"
	"sync"
	"time"

	"symgo/interp"
)

var (
	raceOnce  sync.Once
	raceBuild *nativeBuild
)

// confirmSchedule replays a race finding: the harness package is built with
// the Go race detector and the instance is run (a few times) on the model's
// inputs; the finding is confirmed when the detector reports a data race
// whose stacks mention the function of one of the two accesses.
func confirmSchedule(scratch string, fam *Family, inst Instance, v interp.Violation) (bool, string) {
	raceOnce.Do(func() { raceBuild = buildNative(scratch, fam, true) })
	if raceBuild.err != nil {
		return false, raceBuild.err.Error()
	}
	var out string
	for t := 0; t < 8; t++ {
		r := raceBuild.run(inst.Func, v.Model, 60*time.Second)
		out = r.out
		if strings.Contains(r.out, "WARNING: DATA RACE") {
			return true, r.out
		}
	}
	return false, out
}
