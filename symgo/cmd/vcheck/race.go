package main

import "symgo/interp"

// confirmSchedule replays schedule-dependent findings (filled in with the
// concurrent properties).
func confirmSchedule(scratch string, fam *Family, inst Instance, v interp.Violation) (bool, string) {
	return false, "no schedule replay available for this kind yet"
}
