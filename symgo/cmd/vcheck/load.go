package main

import (
	"fmt"
	"os"
	"strings"

	"golang.org/x/tools/go/packages"
	"golang.org/x/tools/go/ssa"
	"golang.org/x/tools/go/ssa/ssautil"
)

// repoDir is /repo; VCHECK_REPO (debug only, never set by a registered command) points the check at
// another checkout, e.g. a scratch worktree while /repo is busy.
var repoDir = func() string {
	if d := os.Getenv("VCHECK_REPO"); d != "" {
		return d
	}
	return "/repo"
}()
const modPath = "github.com/bilibili/gengine"

func goEnv() []string {
	env := os.Environ()
	env = append(env, "GOFLAGS=-mod=mod", "GOPROXY=off", "GOSUMDB=off", "GOTOOLCHAIN=local", "CGO_ENABLED=0")
	return env
}

// loadProgram loads the given package patterns of /repo with extra files
// overlaid (virtual path -> contents) and builds SSA for everything.
func loadProgram(overlay map[string][]byte, patterns ...string) (*ssa.Program, []*ssa.Package, error) {
	cfg := &packages.Config{
		Mode:    packages.LoadAllSyntax,
		Dir:     repoDir,
		Env:     goEnv(),
		Overlay: overlay,
	}
	pkgs, err := packages.Load(cfg, patterns...)
	if err != nil {
		return nil, nil, err
	}
	var errs []string
	packages.Visit(pkgs, nil, func(p *packages.Package) {
		for _, e := range p.Errors {
			errs = append(errs, e.Error())
		}
	})
	if len(errs) > 0 {
		if len(errs) > 10 {
			errs = errs[:10]
		}
		return nil, nil, fmt.Errorf("load errors:\n%s", strings.Join(errs, "\n"))
	}
	prog, spkgs := ssautil.AllPackages(pkgs, ssa.InstantiateGenerics)
	prog.Build()
	return prog, spkgs, nil
}
