package main

import (
	"fmt"
	"strings"

	"symgo/interp"
)

func init() { generators["C05"] = genC05 }

// stdHead is the usual import block of a generated harness file.
func stdHead(pkg string) string {
	return "package " + pkg + "\n\nimport (\n\t\"github.com/bilibili/gengine/engine\"\n\t\"github.com/bilibili/gengine/zz_verif/vnd\"\n)\n\nvar _ = engine.NewGengine\nvar _ = vnd.Reach\n"
}

func finishFamily(fam *Family, pkg string, body string) {
	fam.Files[repoDir+"/zz_verif/"+pkg+"/h.go"] = stdHead(pkg) + body
	fam.Files[repoDir+"/zz_verif/"+pkg+"/lib.go"] = libFile(pkg)
	fam.TestFile = repoDir + "/zz_verif/" + pkg + "/zz_replay_test.go"
	fam.TestSrc = testFile(pkg, fam.Instances)
}

func genC05(tier string, seed int64) (*Family, error) {
	pkg := "c05"
	fam := &Family{
		Prop:       "C05",
		BothOrders: true,
		PkgPath:    modPath + "/zz_verif/" + pkg,
		Files:      map[string]string{},
		Bounds:     map[string]interface{}{},
		Cfg:        interp.Config{MaxSteps: 3_000_000, TrackAllocs: []string{"*"}, TrackFields: []string{"engine.Gengine.returnResult"}},
		Functions: []string{"engine.Gengine).ExecuteMixModel", "engine.Gengine).ExecuteInverseMixModel", "engine.Gengine).ExecuteNSortMConcurrent",
			"engine.Gengine).ExecuteNConcurrentMSort", "engine.Gengine).ExecuteNConcurrentMConcurrent", "engine.Gengine).ExecuteSelectedRulesMixModel", "engine.Gengine).ExecuteSelectedRulesInverseMixModel", "engine.Gengine).ExecuteSelectedNSortMConcurrent"},
	}
	maxN := 3
	if tier == "thorough" {
		maxN = 4
	}
	fam.Bounds["rules_per_set"] = fmt.Sprintf("1..%d", maxN)
	fam.Bounds["N_M_splits"] = "every N>=1, M>=1 with N+M <= n, plus the rejected shapes N<=0, M<=0, N+M>n"
	fam.Bounds["schedules"] = "all interleavings of the logged events of each control path (time-stamp SMT encoding)"
	fam.Assumptions = []string{
		"event structure per control path is extracted from one deterministic cooperative run (spawner first, then oldest runnable); schedules are then quantified symbolically over integer time stamps with program order, spawn, mutex exclusion and WaitGroup counting constraints",
		"sequentially consistent interleavings",
		"a rule 'finishes' at its end event; a failing rule has no end event, its start event is used in the barrier query",
		"stage one is identified as the first N rules started in the extracted run; any departure from the barrier is caught by the order queries",
	}
	fam.Outside = []string{"rule sets larger than the bound", "the error value (text) of the mixed models"}

	var b strings.Builder
	add := func(name, stratum, desc, call, oracle string, n int, expect ...string) {
		fmt.Fprintf(&b, "\n// %s\nfunc %s() {\n\tn := %d\n\ts := symSal(n)\n\tf := symFlags(\"f\", n)\n\tb := vnd.Bool(\"b\")\n\t_ = b\n\trb := build(n, s, f)\n\teng := engine.NewGengine()\n\terr := %s\n\tvnd.Event(\"ret\")\n\tvnd.Quiesce()\n\tvnd.Reach(\"executed\")\n%s}\n", desc, name, n, call, oracle)
		if len(expect) == 0 {
			expect = []string{"executed"}
		}
		fam.Instances = append(fam.Instances, Instance{Func: name, Stratum: stratum, Desc: desc, Expect: expect})
	}
	tr := "\ttr := vnd.Trace()\n"
	for n := 1; n <= maxN; n++ {
		add(fmt.Sprintf("H_Mix_%d", n), "ExecuteMixModel", fmt.Sprintf("mix model, %d rules", n),
			"eng.ExecuteMixModel(rb)", tr+fmt.Sprintf("\tcheckTwoStage(tr, n, 1, %d, true, false, s, f, false, err)\n", n-1), n)
		inv1sorted := "true"
		if n >= 3 {
			inv1sorted = "false"
		}
		if n >= 2 {
			add(fmt.Sprintf("H_Inverse_%d", n), "ExecuteInverseMixModel", fmt.Sprintf("inverse mix model, %d rules", n),
				"eng.ExecuteInverseMixModel(rb)", tr+fmt.Sprintf("\tcheckTwoStage(tr, n, %d, 1, %s, true, s, f, false, err)\n", n-1, inv1sorted), n)
		} else {
			add("H_Inverse_1", "ExecuteInverseMixModel", "inverse mix model, 1 rule",
				"eng.ExecuteInverseMixModel(rb)", tr+"\tcheckTwoStage(tr, n, 1, 0, true, true, s, f, false, err)\n", n)
		}
	}
	type nm struct {
		fn             string
		sorted1, sort2 bool
	}
	models := []nm{{"ExecuteNSortMConcurrent", true, false}, {"ExecuteNConcurrentMSort", false, true}, {"ExecuteNConcurrentMConcurrent", false, false}}
	for _, m := range models {
		for n := 2; n <= maxN; n++ {
			for N := 1; N < n; N++ {
				for M := 1; N+M <= n; M++ {
					add(fmt.Sprintf("H_%s_%d_%d_%d", strings.TrimPrefix(m.fn, "Execute"), n, N, M), m.fn, fmt.Sprintf("%s N=%d M=%d over %d rules", m.fn, N, M, n),
						fmt.Sprintf("eng.%s(%d, %d, rb, b)", m.fn, N, M), tr+fmt.Sprintf("\tcheckTwoStage(tr, n, %d, %d, %v, %v, s, f, b, err)\n", N, M, m.sorted1, m.sort2), n)
				}
			}
		}
		// rejected parameter shapes
		for k, bad := range [][2]int{{0, 1}, {1, 0}, {-1, 2}, {2, 2}, {1, 3}} {
			add(fmt.Sprintf("H_%s_bad%d", strings.TrimPrefix(m.fn, "Execute"), k), m.fn+":rejected", fmt.Sprintf("%s N=%d M=%d over 3 rules is rejected", m.fn, bad[0], bad[1]),
				fmt.Sprintf("eng.%s(%d, %d, rb, b)", m.fn, bad[0], bad[1]),
				"\tvnd.Assert(err != nil, \"bad N/M is rejected\")\n\tvnd.Assert(len(vnd.Trace()) == 1, \"nothing runs\")\n", 3)
		}
	}
	// the selected counterparts ("or selected" in the statement); C12 covers the name-list dimension
	for _, l := range [][]string{{"r2", "r0"}, {"r1", "r2", "r0"}} {
		k := len(l)
		cand := make([]string, 3)
		for i := range cand {
			cand[i] = "false"
		}
		for _, nm := range l {
			cand[int(nm[1]-'0')] = "true"
		}
		candLit := "[]bool{" + strings.Join(cand, ", ") + "}"
		names := goStrings(l)
		inv1 := "true"
		if k >= 3 {
			inv1 = "false"
		}
		add(fmt.Sprintf("H_SelMix_%d", k), "ExecuteSelectedRulesMixModel", fmt.Sprintf("selected mix model over %v", l), "eng.ExecuteSelectedRulesMixModel(rb, "+names+")",
			tr+fmt.Sprintf("\tcheckTwoStageCand(tr, n, %s, 1, %d, true, false, s, f, false, err)\n", candLit, k-1), 3)
		add(fmt.Sprintf("H_SelInverse_%d", k), "ExecuteSelectedRulesInverseMixModel", fmt.Sprintf("selected inverse mix model over %v", l), "eng.ExecuteSelectedRulesInverseMixModel(rb, "+names+")",
			tr+fmt.Sprintf("\tcheckTwoStageCand(tr, n, %s, %d, 1, %s, true, s, f, false, err)\n", candLit, k-1, inv1), 3)
		for _, m := range []struct {
			fn     string
			s1, s2 bool
		}{{"ExecuteSelectedNSortMConcurrent", true, false}, {"ExecuteSelectedNConcurrentMSort", false, true}, {"ExecuteSelectedNConcurrentMConcurrent", false, false}} {
			add(fmt.Sprintf("H_%s_%d", strings.TrimPrefix(m.fn, "ExecuteSelected"), k), m.fn, fmt.Sprintf("%s N=1 M=%d over %v", m.fn, k-1, l), fmt.Sprintf("eng.%s(1, %d, rb, b, %s)", m.fn, k-1, names),
				tr+fmt.Sprintf("\tcheckTwoStageCand(tr, n, %s, 1, %d, %v, %v, s, f, b, err)\n", candLit, k-1, m.s1, m.s2), 3)
		}
	}
	// a selected call must leave the builder's rule set intact for the next whole-set call
	selCalls := []struct{ id, call string }{
		{"SelMix", "eng.ExecuteSelectedRulesMixModel(rb, names)"},
		{"SelInverse", "eng.ExecuteSelectedRulesInverseMixModel(rb, names)"},
		{"SelConc", "eng.ExecuteSelectedRulesConcurrent(rb, names)"},
		{"SelSorted", "eng.ExecuteSelectedRulesWithControl(rb, true, names)"},
		{"SelNSortMConc", "eng.ExecuteSelectedNSortMConcurrent(1, 1, rb, true, names)"},
		{"SelNConcMSort", "eng.ExecuteSelectedNConcurrentMSort(1, 1, rb, true, names)"},
		{"SelNConcMConc", "eng.ExecuteSelectedNConcurrentMConcurrent(1, 1, rb, true, names)"},
	}
	for _, sc := range selCalls {
		name := "Q_" + sc.id + "_then_whole_set"
		fmt.Fprintf(&b, `
// %s on a sub-list given in reverse order, then whole-set models on the same builder
func %s() {
	n := 3
	s := symSal(n)
	rb := build(n, s, allFalse(n))
	eng := engine.NewGengine()
	names := []string{"r2", "r1"}
	_ = %s
	vnd.Quiesce()
	mark := len(vnd.Trace())
	f := allFalse(n)
	err := eng.ExecuteInverseMixModel(rb)
	vnd.Event("ret")
	vnd.Quiesce()
	vnd.Reach("executed")
	for i := 0; i < n; i++ {
		vnd.Assert(countSince(mark, sname(i)) == 1, "after a selected call every rule of the set still runs exactly once")
	}
	ord := startOrder(vnd.Trace()[mark:], n)
	vnd.Assert(len(ord) == n, "three rules ran")
	if len(ord) == n {
		vnd.Assert(vnd.And(s[ord[0]] >= s[ord[2]], s[ord[1]] >= s[ord[2]]), "inverse mix still ends with the lowest-priority rule")
	}
	vnd.Assert(err == nil, "no error")
	mark = len(vnd.Trace())
	err = eng.ExecuteNSortMConcurrent(2, 1, rb, true)
	vnd.Quiesce()
	ord = startOrder(vnd.Trace()[mark:], n)
	vnd.Assert(len(ord) == n, "three rules ran")
	if len(ord) == n {
		vnd.Assert(vnd.And(s[ord[0]] >= s[ord[1]], s[ord[1]] >= s[ord[2]]), "N-M still runs the rules in priority order")
	}
	for i := 0; i < n; i++ {
		vnd.Assert(countSince(mark, sname(i)) == 1, "after a selected call every rule of the set still runs exactly once")
	}
	_ = f
}
`, sc.id, name, sc.call)
		fam.Instances = append(fam.Instances, Instance{Func: name, Stratum: "sequence:" + sc.id, Desc: sc.id + " then whole-set models on the same builder", Expect: []string{"executed"}})
	}
	// selected mix / inverse variants with an unknown name between, before and after the known ones
	for _, sc := range []struct{ id, call string; sorted1, sorted2 bool }{
		{"SelMix", "eng.ExecuteSelectedRulesMixModel(rb, names)", true, false},
		{"SelInverse", "eng.ExecuteSelectedRulesInverseMixModel(rb, names)", false, true},
	} {
		for k, lst := range []string{`[]string{"r1", "zz", "r0"}`, `[]string{"zz", "r2", "r1"}`, `[]string{"r0", "zz", "yy", "r2"}`} {
			name := fmt.Sprintf("Q_%s_unknown_%d", sc.id, k)
			cand := []string{"[]bool{true, true, false}", "[]bool{false, true, true}", "[]bool{true, false, true}"}[k]
			n1, n2 := 1, 1
			if sc.id == "SelInverse" {
				n1, n2 = 1, 1
			}
			fmt.Fprintf(&b, `
// %s with names %s
func %s() {
	n := 3
	s := symSal(n)
	f := symFlags("f", n)
	rb := build(n, s, f)
	eng := engine.NewGengine()
	names := %s
	err := %s
	vnd.Event("ret")
	vnd.Quiesce()
	vnd.Reach("executed")
	checkTwoStageCand(vnd.Trace(), n, %s, %d, %d, %v, %v, s, f, false, err)
}
`, sc.id, lst, name, lst, sc.call, cand, n1, n2, sc.sorted1, sc.sorted2)
			fam.Instances = append(fam.Instances, Instance{Func: name, Stratum: "selected-unknown:" + sc.id, Desc: sc.id + " with names " + lst, Expect: []string{"executed"}})
		}
	}
	// the set was extended at its tail by an incremental build and the new rule re-sent before the staged models run
	for _, wc := range []struct{ id, call string }{
		{"Mix", "eng.ExecuteMixModel(rb)"},
		{"Inverse", "eng.ExecuteInverseMixModel(rb)"},
		{"NSortMConc", "eng.ExecuteNSortMConcurrent(2, 1, rb, true)"},
		{"NConcMSort", "eng.ExecuteNConcurrentMSort(1, 2, rb, true)"},
	} {
		name := "Q_tail_add_resend_then_" + wc.id
		fmt.Fprintf(&b, `
// two rules built, a third added below them incrementally and re-sent, then %s
func %s() {
	n := 3
	s := symSal(n)
	vnd.Assume(vnd.And(s[0] > s[2], s[1] > s[2]))
	f := allFalse(n)
	rb := build(2, s[:2], f)
	must(rb.BuildRuleWithIncremental(oneRule(2, s[2], "")), "incremental build (new rule at the tail)")
	must(rb.BuildRuleWithIncremental(oneRule(2, s[2], "")), "incremental build (the same rule re-sent)")
	eng := engine.NewGengine()
	mark := len(vnd.Trace())
	err := %s
	vnd.Event("ret")
	vnd.Quiesce()
	vnd.Reach("executed")
	vnd.Assert(err == nil, "no error")
	for i := 0; i < n; i++ {
		vnd.Assert(countSince(mark, sname(i)) == 1, "every rule of the set runs exactly once")
	}
	ord := startOrder(vnd.Trace()[mark:], n)
	if len(ord) == n && %v {
		vnd.Assert(vnd.And(s[ord[0]] >= s[ord[1]], s[ord[0]] >= s[ord[2]]), "the first stage is the highest-priority rule")
	}
}
`, wc.id, name, wc.call, wc.id == "Mix" || wc.id == "NSortMConc")
		fam.Instances = append(fam.Instances, Instance{Func: name, Stratum: "sequence:tail-add", Desc: "incremental add at the tail, re-send, then " + wc.id, Expect: []string{"executed"}})
	}
	finishFamily(fam, pkg, b.String())
	return fam, nil
}
