#!/bin/sh
# usage: sweepseeds.sh <out file> [repo checkout] [seed name regex]
# Re-applies every stored seeded change (matching the regex) to the checkout in turn (default /repo, which
# must be clean and otherwise unused meanwhile; a scratch worktree can be given instead) and runs the quick
# check recorded as reporting it; one line per seed.
cd /verif
out=${1:-/tmp/sweep.txt}
repo=${2:-/repo}
re=${3:-.}
: > $out
for d in seeded/*/; do
  id=$(basename $d)
  echo "$id" | grep -Eq "$re" || continue
  other=$(python3 - "$id" <<'PY'
import sys
keep={'C05-m2':'C12','C07-m4':'C16','C10-m4':'C16','C19-m8':'C06','C09-m12':'C15','C05-m11':'C12'}
print(keep.get(sys.argv[1], sys.argv[1].split('-')[0]))
PY
)
  patch=/verif/$d/patch.diff
  [ -f $d/patch_rebased.diff ] && patch=/verif/$d/patch_rebased.diff
  if ! git -C $repo diff --quiet; then echo "$repo dirty"; exit 9; fi
  if ! git -C $repo apply $patch 2>/dev/null; then echo "$id $other patch-does-not-apply" >> $out; continue; fi
  VCHECK_REPO=$repo VCHECK_EVIDENCE_DIR=/tmp/ev-$$ timeout 1500 ./bin/vcheck -prop $other > /tmp/sweep.$id.log 2>&1
  rc=$?
  git -C $repo checkout -- .
  echo "$id $other exit=$rc $(grep -c '^VIOLATION' /tmp/sweep.$id.log)" >> $out
done
echo SWEEPDONE >> $out
