#!/usr/bin/env python3
"""Regenerates /verif/MANIFEST.json from the table below (kept valid at all times)."""
import json

TECH = ("bounded symbolic execution of the go/ssa of /repo (own interpreter) with z3 deciding every branch, "
        "assertion and schedule query; counterexamples replayed against the native build")
NOTE = ("Trusted: the symgo interpreter and its models of reflect, sync, fmt, sort.SliceStable; the parser bridge "
        "(real ANTLR front end run natively on each concrete text); z3. Sampled path models are re-run natively and "
        "must agree; every reported counterexample is replayed natively first. A thinned sample of each run's decided "
        "queries is re-decided by z3 5.1 and cvc5 1.0 (any disagreement is exit 2). The instance families named in the "
        "level text were widened in six rounds of seeded changes; DESIGN.md section 6 has the current shapes and "
        "counts, section 9 the per-seed record.")

CLAIMED = {
 "C06": "Decomposed into lemmas decided on the real code: exclusive ownership of an instance (C17 step), pairwise distinct data contexts, clean-up of the injected keys after each of the 24 pool entry points on normal return and rule error with the pool's apis kept, a result map that holds only this request's symbolic values, is complete at return in every interleaving (join query) and is not modified by the next request on the same instance; plus two overlapping requests (the first blocked inside a rule) each reading only its own data, race query on the result map and the data context maps.",
 "C07": "Pool (1,2) with version-tagged rules: an update (full with same / other names, incremental replace / add, removal, clear) lands while an execution is inside its first rule - triggered by that rule itself or performed by another goroutine while the rule is held - in 14 pool execution models on the initial and the additional instance; what ran must fit exactly one installed version, and after the update returned an execution forced onto each instance runs exactly the new version. Updates landing between engine-internal reads are covered by the race query of C19.",
 "C08": "Inductive step over builder containers: from an arbitrary container satisfying the representation invariant (0..3 rules, symbolic saliences, arbitrary non-increasing arrangement incl. ties, chosen by the solver) one full build, incremental build (every list of 1..2 existing / fresh names, symbolic saliences, every map order) or removal (every subset incl. absent names) re-establishes the invariant and yields exactly the denoted set (names, bodies by version tag, descriptions, saliences, identity of untouched rules, existence queries, sort-model order); plus two-step sequences and the base case.",
 "C10": "All five compile entry points are run from the installed state {a, b} (1) with the front end's outcome chosen by the harness as three symbolic booleans (lexer / grammar / listener error) delivered to whatever listeners the entry point registered, and (2) on a bounded family of concrete texts through the real front end (valid, stray characters, every token deleted / duplicated, duplicate and empty names, empty text): accept/reject must agree across entry points, a rejecting call must leave names, bodies and order untouched on master and instances, an accepting call must install the replaced / merged set. The clause 'returns normally on every byte string' is outside the claim (see notes).",
 "C16": "Inductive step over pool states: from each shape a history can leave a (1,2) pool in (instances sharing the master container, instances with own containers, cleared, after incremental, after full update; symbolic saliences) one of 13 management operations is applied; existence, count, salience, description and model queries must equal the denoted set and an execution forced onto the initial and onto the additional instance must run exactly it; plus clear / update / removal sequences; no path may panic.",
 "C17": "Inductive step of getGengine and of the put goroutine from an arbitrary distribution of the instances of (1,2), (1,3), (2,3) pools over {own list, in flight} with arbitrarily rotated lists: a get hands out a listed instance never one in flight and removes it, with both lists empty it spins with state and locks unchanged (waits, does not fail), a put appends exactly that instance to its own list, the partition invariant is preserved; every one of the 24 pool entry points hands its instance back after normal return, rule error and a panic leaving the pool method.",
 "C19": "Race query (two conflicting accesses adjacent in some consistent interleaving of the extracted event structure) on gengine's own state - pool bookkeeping fields, result map, local maps, data context map, captured error slices, builder.Kc and the three container fields - for every concurrent engine model, two and three pool requests, a pool request concurrent with each management operation (full / incremental / removal / clear / model change / queries); each reported pair is confirmed under go test -race.",
 "C02": "140 (thorough 700) generated statement programs (depth <= 3: if / else-if chains / else, for, forRange over slice and map, break, continue, return at any depth, plain and compound assignments to locals and to an injected field) plus hand-written programs per clause are compiled by the real front end and executed symbolically; every branch condition is a fresh symbolic boolean or a comparison of locals, loop bounds are symbolic in [0,3]; trace of observer calls, returned value, final locals and final injected state must equal those of the same program emitted as Go code, for every path.",
 "C03": "One read, write or call per rule over a struct with every numeric width, string, bool, nested struct, pointer, maps, slices, arrays and pointer-injected scalars (all contents symbolic): the host-side value after Execute equals T(x) for every target type and source class (assumed representable; including unsigned values above MaxInt64 and large negative values into float targets and float parameters), all 50 other locations equal their snapshot (frame condition), reads return the current Go value (zero for a missing key), calls receive converted positional arguments and yield the first result, an injected name is never shadowed. Runs through the reflect model.",
 "C09": "16 expression faults x 11 positions and 18 statement-level faults (quick: stratified subset), in the sort model and, for the assignment / condition / statement-level positions, in 12 further models: the deciding datum (divisor, index, nil-ness) is symbolic, a path ending in an uncaught panic of any goroutine, a deadlock or the step budget is a violation, faulting paths must return a non-nil error, healthy rules run as the policy prescribes and a second healthy call on the same engine succeeds. The never-ending for is run to the 10000-iteration cut-off.",
 "C18": "conc blocks with 0..3 (thorough 4) members over every mix of local assignment, injected-field assignment, function, method and three-level call with a symbolic failing subset: every member runs exactly once, the next statement starts after all member end events in every interleaving (schedule SMT), observes every assignment, the block fails iff a member fails and only after all finished (join), and neither the local map nor the error slice is accessed by two goroutines adjacently.",
 "C20": "Every fault of the C09 table is placed on a known line of a three-rule text with comment and blank lines; on every faulting path each 'line N, column' citation must lie inside the failing statement and never be 0, and for arithmetic, comparison, logic, call and assignment faults the line of the failing construct must be cited.",
 "C12": "All 11 selected entry points over a set of 3 (thorough 4) rules with symbolic saliences / failing subset / policy and an enumerated family of name lists (sub-lists, permutations, unknown names at every position, all-unknown, empty, wrong length): exactly the named existing rules run, sorted variants by salience, as-given variants in list order, concurrent / mix / inverse / N-M variants as their model prescribes over that set (barriers decided by the schedule SMT), and the call fails without running anything where the statement says so.",
 "C13": "DAG model over 4 rules and an enumerated family of layerings (<= 3/4 layers, empty layers, unknown names, repeats inside a layer) with symbolic failing subset: per-layer barriers and join are decided over all interleavings by the schedule SMT, occurrences are counted, a failing layer stops the rest and makes the call fail.",
 "C14": "Stop-tag variants over 1..3 (thorough 4) rules with symbolic tag-setting subset, failing subset, policy and saliences: no rule starts after the first rule that set the tag (mix: nothing after the first rule), and a differential harness proves the tag variants equal to their plain counterparts (trace, error-ness, result map) when the tag is never set.",
 "C15": "In every engine entry point, twice per engine, a lower-priority rule that only reads a local assigned by another rule fails with not-found and each rule returns its own value; accesses to the per-execution local map are events and the race query shows no map is touched by two goroutines in any schedule.",
 "C05": "Mix, inverse-mix and the three N-M models over 1..3 (thorough 4) rules, every N/M split and the rejected shapes: saliences, failing subset and error policy are symbolic; per control path the logged events (rule start/end, spawn, WaitGroup, mutex) form an event structure and z3 decides over integer time stamps that in no consistent interleaving a stage-two rule starts before a stage-one rule ends, that nothing runs after the call returns, and the exactly-once / window / stop-continue oracle.",
 "C11": "All 21 engine execution entry points (and two DAG shapes) are run twice on one engine with symbolic return/fail flags and values per rule (value return, bare return, failing return expression, fault, none; returns nested in if/for/forRange): the result map must hold exactly the rules that ran in that call and reached a return, with their values, also when the second call is a selected entry point whose name list resolves to nothing; accesses to the result map are events in the join query.",
 "C01": "Every binary operator x every ordered pair of the 14 operand kinds, every operator pair (thorough: triple) with and without parentheses, literals, negation, rule locals and the four metadata constants are compiled by the real front end and evaluated symbolically (Expression/MathExpression/Atom/Constant.Evaluate, core.Add/Sub/Mul/Div) with all operand values symbolic; z3 proves equality with a reference generated from an independent precedence parse, and 'error iff zero divisor / ill-typed, never a value'. Bounded in expression size only.",
 "C04": "For rule sets of 1..3 (thorough 4) rules with symbolic int64 saliences, symbolic failing subset and symbolic error-policy flag, every path of BuildRuleFromString's sort/index tail and of Execute / ExecuteWithStopTagDirect / ExecuteSelectedRules / ExecuteSelectedRulesWithControl is executed symbolically from SSA and the order / exactly-once / error-policy oracle is discharged by z3 for all values; outside the bound nothing is claimed.",
}

NOT_YET = "check not built yet in this session (engine exists; harness family pending) - will be claimed once it runs clean on the unchanged tree"

props = [json.loads(l) for l in open('/verif/properties.jsonl')]
checks = []
for p in props:
    pid = p["id"]
    if pid not in CLAIMED:
        continue
    checks.append({
        "property_id": pid,
        "quick_cmd": f"/verif/bin/vcheck -prop {pid} -tier quick",
        "thorough_cmd": f"/verif/bin/vcheck -prop {pid} -tier thorough",
        "evidence_file": f"/verif/evidence/{pid}.json",
        "replay_cmd_template": "sh {path}/run.sh",
        "engine": "symgo",
        "level_claimed": {"category": "model_checking", "text": CLAIMED[pid], "design_ref": "DESIGN.md section 6, " + pid},
        "level_note": NOTE,
        "technique": TECH,
    })
m = {
 "version": 1,
 "setup_cmd": "cd /verif/symgo && GOFLAGS=-mod=mod GOPROXY=off GOSUMDB=off GOTOOLCHAIN=local go build -o /verif/bin/vcheck ./cmd/vcheck",
 "hooks": {"guard": "verif",
           "enable": "no hooks: harnesses and instrumentation are injected with go/packages and go build overlays (new files only); /repo is never edited by the checks",
           "baseline_off_cmd": "cd /repo && GOFLAGS=-mod=mod GOPROXY=off go test -vet=off -count=1 -timeout 25m ./...",
           "source_commits": [], "add_only": True},
 "engines": [{"name": "symgo", "path": "/verif/symgo", "serves_properties": sorted(CLAIMED),
              "kind_free_text": "path-based symbolic interpreter for go/ssa (fork of x/tools/go/ssa/interp) + SMT-LIB2 over z3; reflect/sync/fmt/sort models; native parser bridge; native replay"}],
 "checks": checks,
 "notes": "All 20 properties are claimed; every check runs clean on the repaired tree. The 15 fix: commits in /repo are listed in /verif/known_findings.json (status fixed; nothing is suppressed). One clause of C10 - every byte string makes each entry point return normally - is outside the claim: the ANTLR lexer/parser cannot be encoded by the hand-written executor (DESIGN.md section 8); the other clauses of C10 are decided. Seeded changes and the checks that catch them: /verif/seeded and DESIGN.md section 9.",
 "not_applicable": [{"property_id": p["id"], "reason": NOT_YET} for p in props if p["id"] not in CLAIMED],
}
json.dump(m, open('/verif/MANIFEST.json', 'w'), indent=1)
print("claimed:", sorted(CLAIMED))
