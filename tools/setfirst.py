#!/usr/bin/env python3
# usage: setfirst.py <seed dir name> <first-run outcome> [round]
import json, sys
p = '/verif/seeded/%s/meta.json' % sys.argv[1]
m = json.load(open(p))
m['first_run'] = sys.argv[2]
m['round'] = int(sys.argv[3]) if len(sys.argv) > 3 else (1 if sys.argv[1][-1] in '12' else 2 if sys.argv[1][-1] in '34' else 3)
json.dump(m, open(p, 'w'), indent=1)
