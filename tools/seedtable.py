#!/usr/bin/env python3
# regenerates the per-seed table of DESIGN.md (between the SEEDTABLE markers) from seeded/*/meta.json
import json, glob, os, re
rows = []
for d in sorted(glob.glob('/verif/seeded/*')):
    try:
        m = json.load(open(d + '/meta.json'))
    except Exception:
        continue
    name = os.path.basename(d)
    summ = ' '.join(m.get('summary', '').split())
    if len(summ) > 150:
        summ = summ[:147] + '...'
    cb = ' '.join(m.get('caught_by', '').split())
    first = m.get('first_run', '?')
    if len(cb) > 230:
        cb = cb[:227] + '...'
    rows.append('| %s | %s | %s | %s |' % (name, summ.replace('|', '/'), first, cb.replace('|', '/')))
table = '| seed | change | first run | reported by (now) |\n|---|---|---|---|\n' + '\n'.join(rows) + '\n'
p = '/verif/DESIGN.md'
s = open(p).read()
a, b = '<!-- SEEDTABLE -->', '<!-- /SEEDTABLE -->'
if a in s:
    s = s[:s.index(a) + len(a)] + '\n' + table + s[s.index(b):]
    open(p, 'w').write(s)
from collections import Counter
c = Counter(r.split('|')[3].strip() for r in rows)
print(len(rows), dict(c))
