#!/bin/sh
# usage: tryseed.sh <patch.diff> <prop> [extra vcheck args]
# applies the patch to /repo, runs the quick check, always reverts.
patch=$1; prop=$2; shift 2
cd /repo || exit 9
if ! git diff --quiet; then echo "/repo is dirty"; exit 9; fi
git apply "$patch" || { echo "patch does not apply"; exit 9; }
cd /verif && VCHECK_EVIDENCE_DIR=/tmp/ev timeout 1500 ./bin/vcheck -prop "$prop" "$@" > /tmp/tryseed.$prop.log 2>&1
rc=$?
git -C /repo checkout -- .
echo "exit=$rc"
grep -c "^VIOLATION" /tmp/tryseed.$prop.log | sed 's/^/violations=/'
grep "^VIOLATION\|^INCONCLUSIVE\|key=" /tmp/tryseed.$prop.log | head -6 | cut -c1-220
tail -1 /tmp/tryseed.$prop.log
