#!/bin/sh
# usage: tryseedw.sh <patch.diff> <prop> [extra vcheck args]
# like tryseed.sh but in the scratch worktree /tmp/seed/tryW (debug switch VCHECK_REPO), so /repo stays free
patch=$1; prop=$2; shift 2
w=${TRYW:-/tmp/seed/tryW}
cd $w || exit 9
if ! git diff --quiet; then echo "$w is dirty"; exit 9; fi
git apply "$patch" || { echo "patch does not apply"; exit 9; }
cd /verif && VCHECK_REPO=$w VCHECK_EVIDENCE_DIR=/tmp/ev-$(basename $w) timeout 1500 ./bin/vcheck -prop "$prop" "$@" > /tmp/tryseedw.$prop.$(basename $w).log 2>&1
rc=$?
git -C $w checkout -- .
echo "exit=$rc"
grep -c "^VIOLATION" /tmp/tryseedw.$prop.$(basename $w).log | sed 's/^/violations=/'
grep "^VIOLATION\|^INCONCLUSIVE\|key=" /tmp/tryseedw.$prop.$(basename $w).log | head -6 | cut -c1-220
tail -1 /tmp/tryseedw.$prop.$(basename $w).log
