#!/bin/sh
# runs every registered quick (or $1=thorough) check, prints a table
tier=${1:-quick}
cd /verif
for p in C01 C02 C03 C04 C05 C06 C07 C08 C09 C10 C11 C12 C13 C14 C15 C16 C17 C18 C19 C20; do
  s=$(date +%s)
  timeout 3600 ./bin/vcheck -prop $p -tier $tier > /tmp/runall.$p.log 2>&1
  rc=$?
  e=$(date +%s)
  echo "$p rc=$rc $((e-s))s $(tail -1 /tmp/runall.$p.log | cut -c1-170)"
done
