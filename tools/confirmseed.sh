#!/bin/sh
# usage: confirmseed.sh <prop> <mk> <caught-by...>
# Re-verifies a sub-agent's mutation in its scratch worktree /tmp/seed/<prop> and, if all holds,
# stores it under /verif/seeded/<prop>-<mk>/.
prop=$1; mk=$2; shift 2; caught="$*"
wt=/tmp/seed/$prop; out=$wt/_out/$mk
export GOFLAGS=-mod=mod GOPROXY=off GOSUMDB=off GOTOOLCHAIN=local
cd $wt || exit 9
git checkout -q -- . 
demo=$(python3 -c "import json;print(json.load(open('$out/meta.json')).get('demo_dir','zz_demo_$mk'))")
race=$(python3 -c "import json;print('-race' if '-race' in json.load(open('$out/meta.json')).get('demo_cmd','') else '')")
[ -n "$race" ] && export CGO_ENABLED=1
[ -f $wt/$demo/demo_test.go ] || { mkdir -p $wt/$demo; cp $out/demo_test.go $wt/$demo/demo_test.go; }
go test $race -vet=off -count=1 ./$demo/ > /tmp/cs.clean.log 2>&1; clean=$?
git apply $out/patch.diff || { echo "patch does not apply"; exit 9; }
go build ./engine/... ./builder/... ./context/... ./internal/... || { echo "does not build"; git checkout -q -- .; exit 9; }
go test $race -vet=off -count=1 ./$demo/ > /tmp/cs.mut.log 2>&1; mut=$?
go test -vet=off -count=1 -timeout 20m -skip 'Test_lexer' $(go list ./... | grep -v zz_demo | grep -v test/plugin) > /tmp/cs.suite.log 2>&1; suite=$?
git checkout -q -- .
echo "demo on clean tree exit=$clean (want 0); demo with change exit=$mut (want != 0); suite (minus the 2 baseline failures) exit=$suite (want 0)"
if [ $clean -eq 0 ] && [ $mut -ne 0 ] && [ $suite -eq 0 ]; then
  d=/verif/seeded/$prop-$mk; mkdir -p $d
  cp $out/patch.diff $d/patch.diff; cp $out/demo_test.go $d/demo_test.go
  python3 - "$out/meta.json" "$d/meta.json" "$prop" "$demo" "$caught" <<'PY'
import json,sys
m=json.load(open(sys.argv[1]))
m['property']=sys.argv[3]
m['confirmed_by_builder']={"demo_dir":sys.argv[4],"ran":["go test ./%s/ on the clean worktree: pass"%sys.argv[4],"git apply patch.diff; go build: ok","go test ./%s/ with the change: FAIL"%sys.argv[4],"full suite with the change minus Test_lexer/Test_pligin (baseline failures): pass","git checkout -- ."]}
m['caught_by']=sys.argv[5]
json.dump(m,open(sys.argv[2],'w'),indent=1)
PY
  echo "stored $d"
else
  echo "NOT stored"; tail -n 5 /tmp/cs.mut.log; tail -n 5 /tmp/cs.suite.log
fi
